------------------------------ MODULE IndexCore ------------------------------
(***************************************************************************)
(* IndexList, IndexOptimized, Vec as index containers and the documented   *)
(* cost rule - everything of IndexContainers.tla except the one recursive  *)
(* definition (ICExtend), so that proofs/IndexProof.tla can be checked by  *)
(* TLAPS against these very definitions.  See IndexContainers.tla for the  *)
(* meaning of the constants.                                               *)
(***************************************************************************)
EXTENDS Naturals, Sequences, StrideCore   \* StrideCore declares Zero, Mul(_, _) and specifies Stride

CONSTANTS Fits32(_)

---------------------------------------------------------------------------
(* IndexList: smol (u32) then chonk (u64); chonk is used from the first    *)
(* value that does not fit and for everything after it.                    *)

ListInit == [smol |-> <<>>, chonk |-> <<>>]

ListPush(l, x) ==
  IF l.chonk = <<>> /\ Fits32(x)
  THEN [l EXCEPT !.smol = Append(@, x)]
  ELSE [l EXCEPT !.chonk = Append(@, x)]

ListLen(l) == Len(l.smol) + Len(l.chonk)
ListDenote(l) == l.smol \o l.chonk
ListHeapUsed(l) == 4 * Len(l.smol) + 8 * Len(l.chonk)

---------------------------------------------------------------------------
(* The IndexContainer interface over the kinds "vec", "list", "opt".       *)
(* "vec" takes its element size from the caller (Vec<R::Index>).           *)

ICInit(k) ==
  CASE k = "vec"  -> [k |-> "vec", xs |-> <<>>]
    [] k = "list" -> [k |-> "list", l |-> ListInit]
    [] k = "opt"  -> [k |-> "opt", st |-> StrideInit, sp |-> ListInit]

ICPush(ic, x) ==
  CASE ic.k = "vec"  -> [ic EXCEPT !.xs = Append(@, x)]
    [] ic.k = "list" -> [ic EXCEPT !.l = ListPush(@, x)]
    [] ic.k = "opt"  ->
         IF ListLen(ic.sp) = 0
         THEN LET r == StridePush(ic.st, x)
              IN  IF r.ok THEN [ic EXCEPT !.st = r.st]
                          ELSE [ic EXCEPT !.sp = ListPush(@, x)]
         ELSE [ic EXCEPT !.sp = ListPush(@, x)]

ICDenote(ic) ==
  CASE ic.k = "vec"  -> ic.xs
    [] ic.k = "list" -> ListDenote(ic.l)
    [] ic.k = "opt"  -> StrideDenote(ic.st) \o ListDenote(ic.sp)

ICLen(ic) ==
  CASE ic.k = "vec"  -> Len(ic.xs)
    [] ic.k = "list" -> ListLen(ic.l)
    [] ic.k = "opt"  -> StrideLen(ic.st) + ListLen(ic.sp)

\* 0-based; the code panics for i >= ICLen (callers guard)
ICIndex(ic, i) == ICDenote(ic)[i + 1]

\* the same, written as the code's `index` computes it (no intermediate sequence): the stride answers
\* arithmetically, the list from the half that holds position i.  ICMC checks IndexAtAgrees.
ListIndexAt(l, i) == IF i < Len(l.smol) THEN l.smol[i + 1] ELSE l.chonk[i - Len(l.smol) + 1]
ICIndexAt(ic, i) ==
  CASE ic.k = "vec"  -> ic.xs[i + 1]
    [] ic.k = "list" -> ListIndexAt(ic.l, i)
    [] ic.k = "opt"  -> IF i < StrideLen(ic.st) THEN StrideIndex(ic.st, i)
                        ELSE ListIndexAt(ic.sp, i - StrideLen(ic.st))

ICClear(ic) == ICInit(ic.k)

\* bytes reported as `used` by heap_size; esz = size of one Vec entry
ICHeapUsed(ic, esz) ==
  CASE ic.k = "vec"  -> esz * Len(ic.xs)
    [] ic.k = "list" -> ListHeapUsed(ic.l)
    [] ic.k = "opt"  -> ListHeapUsed(ic.sp)

---------------------------------------------------------------------------
(* The documented cost rule (C19), stated over the pushed sequence alone,  *)
(* independently of the state machine above.                               *)

\* 0, s, 2s, ..., (c-1)s followed by repeats of (c-1)s
IsStrideShape(q) ==
  \/ Len(q) = 0
  \/ /\ q[1] = Zero
     /\ \/ Len(q) = 1
        \/ \E c \in 2..Len(q) :
             /\ \A i \in 1..c : q[i] = Mul(q[2], i - 1)
             /\ \A i \in (c + 1)..Len(q) : q[i] = q[c]

\* length of the longest prefix of the documented shape (the shape is prefix-closed)
StridePrefixLen(q) ==
  CHOOSE n \in 0..Len(q) :
    /\ IsStrideShape(SubSeq(q, 1, n))
    /\ \A m \in (n + 1)..Len(q) : ~IsStrideShape(SubSeq(q, 1, m))

\* 4 bytes per entry while values fit in u32, 8 bytes from the first larger value on
ListCost(q) ==
  LET big == {i \in 1..Len(q) : ~Fits32(q[i])}
  IN  IF big = {} THEN 4 * Len(q)
      ELSE LET j == CHOOSE i \in big : \A m \in big : i <= m
           IN  4 * (j - 1) + 8 * (Len(q) - j + 1)

DocumentedCost(k, q, esz) ==
  CASE k = "vec"  -> esz * Len(q)
    [] k = "list" -> ListCost(q)
    [] k = "opt"  -> LET p == StridePrefixLen(q)
                     IN  ListCost(SubSeq(q, p + 1, Len(q)))
=============================================================================
