-------------------------------- MODULE Utf8 --------------------------------
(***************************************************************************)
(* Validity of a byte sequence as UTF-8 (RFC 3629): 1-4 byte scalars, no   *)
(* overlong forms, no surrogates, nothing above U+10FFFF.  Used as an      *)
(* invariant over every string a region hands out (C04).                   *)
(***************************************************************************)
EXTENDS Naturals, Sequences

Cont(c) == c \in 128..191

RECURSIVE ValidFrom(_, _)
ValidFrom(b, i) ==
  IF i > Len(b) THEN TRUE
  ELSE LET c == b[i]
           n == Len(b)
       IN  CASE c < 128 -> ValidFrom(b, i + 1)
             [] c \in 194..223 -> i + 1 <= n /\ Cont(b[i + 1]) /\ ValidFrom(b, i + 2)
             [] c = 224 -> i + 2 <= n /\ b[i + 1] \in 160..191 /\ Cont(b[i + 2]) /\ ValidFrom(b, i + 3)
             [] c \in 225..236 \/ c \in 238..239 ->
                  i + 2 <= n /\ Cont(b[i + 1]) /\ Cont(b[i + 2]) /\ ValidFrom(b, i + 3)
             [] c = 237 -> i + 2 <= n /\ b[i + 1] \in 128..159 /\ Cont(b[i + 2]) /\ ValidFrom(b, i + 3)
             [] c = 240 -> i + 3 <= n /\ b[i + 1] \in 144..191 /\ Cont(b[i + 2]) /\ Cont(b[i + 3])
                           /\ ValidFrom(b, i + 4)
             [] c \in 241..243 -> i + 3 <= n /\ Cont(b[i + 1]) /\ Cont(b[i + 2]) /\ Cont(b[i + 3])
                                  /\ ValidFrom(b, i + 4)
             [] c = 244 -> i + 3 <= n /\ b[i + 1] \in 128..143 /\ Cont(b[i + 2]) /\ Cont(b[i + 3])
                           /\ ValidFrom(b, i + 4)
             [] OTHER -> FALSE

ValidUtf8(b) == ValidFrom(b, 1)

ASSUME /\ ValidUtf8(<<>>) /\ ValidUtf8(<<97>>) /\ ValidUtf8(<<195, 164>>)
       /\ ValidUtf8(<<226, 130, 172>>) /\ ValidUtf8(<<240, 159, 152, 128, 97>>)
       /\ ~ValidUtf8(<<195>>) /\ ~ValidUtf8(<<164>>) /\ ~ValidUtf8(<<226, 130>>)
       /\ ~ValidUtf8(<<159, 152, 128>>) /\ ~ValidUtf8(<<192, 128>>) /\ ~ValidUtf8(<<237, 160, 128>>)
       /\ ~ValidUtf8(<<244, 144, 128, 128>>) /\ ~ValidUtf8(<<97, 195>>)
=============================================================================
