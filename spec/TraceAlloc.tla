----------------------------- MODULE TraceAlloc -----------------------------
(***************************************************************************)
(* Trace validation of the allocation discipline (C17).                    *)
(*                                                                         *)
(* The ledger: after reserve_items(items), reserve_regions(regions) or     *)
(* merge_regions(regions) a slot has a PENDING announcement - the exact    *)
(* sequence of values it was sized for.  While pushes consume that         *)
(* announcement in order, no capacity reported by heap_size may change     *)
(* and, for plain-data payloads, the allocator must not be called at all.  *)
(* Any other push voids the announcement; then every capacity change must  *)
(* be a growth step of at least doubling (Vec's amortised policy), a push  *)
(* may call the allocator at most once per storage that grew, and the      *)
(* number of growth steps per storage stays logarithmic in its capacity.   *)
(*                                                                         *)
(* Which pushes are covered by an announcement is decided HERE, from the   *)
(* monitor's own record of what was announced and what each source region  *)
(* holds - not by the recorder.                                            *)
(***************************************************************************)
EXTENDS Naturals, Sequences, FiniteSets, TLC, Json, IOUtils

Rec == ndJsonDeserialize(IOEnv.TRACE)

VARIABLES l, slots, plain, skip, errs
vars == <<l, slots, plain, skip, errs>>

Err(e, why) == IF PrintT(<<"ERR", ToJson([line |-> l, run |-> e.run, why |-> why])>>) THEN errs + 1 ELSE errs

Fresh == [issued |-> <<>>, pending |-> <<>>, grows |-> <<>>, total |-> 0]
Init == l = 1 /\ slots = <<>> /\ plain = FALSE /\ skip = FALSE /\ errs = 0

RECURSIVE Concat(_)
Concat(ss) == IF ss = <<>> THEN <<>> ELSE Head(ss) \o Concat(Tail(ss))
RECURSIVE Log2Ceil(_)
Log2Ceil(n) == IF n <= 1 THEN 0 ELSE 1 + Log2Ceil((n + 1) \div 2)

RECURSIVE SumSeq(_)
SumSeq(q) == IF q = <<>> THEN 0 ELSE Head(q) + SumSeq(Tail(q))

\* a growth step: never shrinks; a changed capacity at least doubles (or is the first allocation).
\* When a push creates new storages (a new column) the lists are not aligned and only the totals
\* are constrained.
GrowthLaw(cb, ca) == Len(cb) = Len(ca) => \A i \in 1..Len(cb) : ca[i] = cb[i] \/ cb[i] = 0 \/ ca[i] >= 2 * cb[i]
\* how many allocator calls doubling growth needs at most to take a storage from capacity a to b
Steps(a, b) == IF b = a THEN 0 ELSE IF a = 0 THEN Log2Ceil(b + 1) + 1 ELSE Log2Ceil((b \div a) + 1) + 1
AllocBudget(cb, ca) == IF Len(cb) = Len(ca) THEN SumSeq([i \in 1..Len(ca) |-> Steps(cb[i], ca[i])])
                       ELSE SumSeq([i \in 1..Len(ca) |-> Steps(0, ca[i])])
Bumped(g, cb, ca) == [i \in 1..Len(ca) |-> (IF i <= Len(g) THEN g[i] ELSE 0) + (IF i <= Len(cb) /\ ca[i] # cb[i] THEN 1 ELSE 0)]

Step(e) ==
  CASE e.ev = "reset" ->
         /\ slots' = [s \in 1..e.nslots |-> Fresh]
         /\ plain' = e.plain
         /\ skip' = FALSE
         /\ errs' = errs
    [] skip -> UNCHANGED <<slots, plain, skip, errs>>
    [] e.ev = "push" ->
         LET sl == slots[e.s]
             announced == sl.pending # <<>> /\ e.v = Head(sl.pending)
             why == IF e.panic THEN "push-panicked"
                    ELSE IF announced /\ e.ca # e.cb THEN "capacity-changed-after-presizing"
                    ELSE IF announced /\ plain /\ e.measured /\ e.allocs # 0 THEN "allocator-called-after-presizing"
                    ELSE IF ~announced /\ ~GrowthLaw(e.cb, e.ca) THEN "capacity-grew-less-than-doubling"
                    ELSE IF ~announced /\ plain /\ e.measured /\ e.allocs > AllocBudget(e.cb, e.ca) THEN "allocation-without-growth"
                    ELSE "ok"
         IN  IF why = "ok"
             THEN /\ slots' = [slots EXCEPT ![e.s] =
                                 [issued |-> Append(sl.issued, e.v),
                                  pending |-> IF announced THEN Tail(sl.pending) ELSE <<>>,
                                  grows |-> Bumped(sl.grows, e.cb, e.ca),
                                  total |-> sl.total + (IF e.measured THEN e.allocs ELSE 0)]]
                  /\ UNCHANGED <<plain, skip, errs>>
             ELSE errs' = Err(e, why) /\ skip' = TRUE /\ UNCHANGED <<slots, plain>>
    [] e.ev = "presize_items" ->
         /\ slots' = [slots EXCEPT ![e.s].pending = e.batch]
         /\ UNCHANGED <<plain, skip, errs>>
    [] e.ev = "presize_regions" ->
         /\ slots' = [slots EXCEPT ![e.s].pending = Concat([i \in 1..Len(e.srcs) |-> slots[e.srcs[i]].issued])]
         /\ UNCHANGED <<plain, skip, errs>>
    [] e.ev = "merge" ->
         /\ slots' = [slots EXCEPT ![e.d] = [Fresh EXCEPT !.pending = Concat([i \in 1..Len(e.srcs) |-> slots[e.srcs[i]].issued])]]
         /\ UNCHANGED <<plain, skip, errs>>
    [] e.ev = "index_capacity" ->
         \* FlatStack::with_capacity(n): capacity() >= n at once, and the n copies leave it unchanged
         LET bad == e.cap0 < e.announced \/ e.len # e.announced \/ \E i \in 1..Len(e.caps) : e.caps[i] # e.cap0
         IN  IF bad THEN errs' = Err(e, "index-capacity-changed-after-with-capacity") /\ UNCHANGED <<slots, plain, skip>>
             ELSE UNCHANGED <<slots, plain, skip, errs>>
    [] e.ev = "end" ->
         \* logarithmic growth: the number of growth steps of every storage is bounded by log2 of its capacity
         \* O(log n) allocator calls per internal storage: the whole run may call the allocator at most
         \* log2(capacity) + 2 times for each storage the region ends up with
         LET budget == SumSeq([i \in 1..Len(e.caps) |-> Log2Ceil(e.caps[i] + 1) + 2])
             bad == plain /\ slots[e.s].total > budget
         IN  IF bad THEN errs' = Err(e, "more-than-logarithmic-allocation") /\ UNCHANGED <<slots, plain, skip>>
             ELSE UNCHANGED <<slots, plain, skip, errs>>

Next == /\ l <= Len(Rec)
        /\ l' = l + 1
        /\ Step(Rec[l])
        /\ (l = Len(Rec)) => PrintT(<<"DONE", l, errs'>>)

Spec == Init /\ [][Next]_vars

\* an announcement is never longer than what was announced (sanity of the ledger)
LedgerSane == \A s \in DOMAIN slots : Len(slots[s].pending) <= 100000
=============================================================================
