SPECIFICATION Spec
INVARIANTS UnsafeSitesExpected PushTypesAreStrings PushTypesComplete PushBodiesForward InnerPrivate
CHECK_DEADLOCK FALSE
