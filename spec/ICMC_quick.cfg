SPECIFICATION Spec
CONSTANTS
  Kinds = {"vec", "stride", "list", "opt"}
  AlphaSel = "full"
  MaxOps = 4
  MaxGhost = 1
  ExtendOn = TRUE
  Emit = TRUE
VIEW View
ACTION_CONSTRAINT EmitEdge
INVARIANTS Faithful LenAgrees NoOverflowValue StrideExact StrideRejectsOnlyBreaks StrideRejectIsNoop CostRule Structure
PROPERTIES AppendOnly FrozenParts
CHECK_DEADLOCK FALSE
