------------------------------ MODULE Domains ------------------------------
(***************************************************************************)
(* Value domains for bounded model checking, one per shape.                *)
(***************************************************************************)
EXTENDS Naturals, Sequences

---------------------------------------------------------------------------
(* Per-shape value domains: small, but chosen to separate the cases the    *)
(* code distinguishes (empty / one / several elements, equal and unequal   *)
(* neighbours, 1-4 byte UTF-8 scalars, a never-equal value, ragged rows).  *)
Min(a, b) == IF a < b THEN a ELSE b
Take(s, n) == SubSeq(s, 1, Min(n, Len(s)))
Pick(s, k) == s[((k - 1) % Len(s)) + 1]
F64(b, n) == [bits |-> b, nan |-> n]

StringDom == << <<97>>, <<195, 164>>, <<>>, <<240, 159, 152, 128, 97>>, <<226, 130, 172>> >>

ScalarDom(t) ==
  CASE t = "u8"    -> <<7, 200, 0>>
    [] t = "u16"   -> <<7, 60000, 0>>
    [] t = "u32"   -> <<"7", "4294967295", "0">>
    [] t = "u64"   -> <<"7", "18446744073709551615", "0">>
    [] t = "usize" -> <<0, 1, 2, 7>>    \* usize doubles as an index: small numbers
    [] t = "i8"    -> <<"-128", "7", "0">>
    [] t = "unit"  -> <<"unit">>
    [] t = "bool"  -> <<"true", "false">>
    [] t = "char"  -> <<"c:97", "c:128512", "c:0">>
    [] t = "f64"   -> <<F64("3ff0000000000000", FALSE), F64("7ff8000000000001", TRUE),
                        F64("fff0000000000000", FALSE)>>
    [] t = "string" -> StringDom

RECURSIVE DomSeq(_)
DomSeq(sh) ==
  CASE sh.k = "owned" ->
         LET d == ScalarDom(sh.t)
         IN  << <<Pick(d, 1)>>, <<Pick(d, 1), Pick(d, 2)>>, <<>>, <<Pick(d, 2)>>,
                <<Pick(d, 2), Pick(d, 2), Pick(d, 1)>> >>
    [] sh.k = "string" -> StringDom
    [] sh.k \in {"mirror", "vecreg"} -> ScalarDom(sh.t)
    [] sh.k = "option" ->
         LET d == DomSeq(sh.inner)
         IN  << [t |-> "some", v |-> Pick(d, 1)], [t |-> "none"], [t |-> "some", v |-> Pick(d, 2)],
                [t |-> "some", v |-> Pick(d, 3)] >>
    [] sh.k = "result" ->
         LET a == DomSeq(sh.ok)
             b == DomSeq(sh.err)
         IN  << [t |-> "ok", v |-> Pick(a, 1)], [t |-> "err", v |-> Pick(b, 1)],
                [t |-> "ok", v |-> Pick(a, 2)], [t |-> "err", v |-> Pick(b, 2)] >>
    [] sh.k = "tuple" ->
         \* field 1 follows 1,1,2,2; field 2 follows 1,2,2,1; further fields 1,1,2,2
         LET sel(i, k) == IF i = 2 THEN <<1, 2, 2, 1>>[k] ELSE <<1, 1, 2, 2>>[k]
         IN  [k \in 1..4 |-> [i \in 1..Len(sh.fs) |-> Pick(DomSeq(sh.fs[i]), sel(i, k))]]
    [] sh.k = "slice" ->
         LET d == DomSeq(sh.inner)
         IN  << <<Pick(d, 1)>>, <<Pick(d, 1), Pick(d, 2)>>, <<>>, <<Pick(d, 2)>>,
                <<Pick(d, 2), Pick(d, 2), Pick(d, 1)>> >>
    [] sh.k \in {"collapse", "cip"} -> DomSeq(sh.inner)
    [] sh.k = "columns" ->
         LET d == DomSeq(sh.inner)
         \* row 2 starts with the EMPTY inner value (an empty cell in a column that may hold nothing else, next to
         \* a column with payload): per-column short cuts keyed on "this column holds no bytes" are wrong here
         IN  << <<Pick(d, 1)>>, <<Pick(d, 3), Pick(d, 2)>>, <<>>, <<Pick(d, 2), Pick(d, 1), Pick(d, 1)>>,
                <<Pick(d, 1), Pick(d, 2)>> >>

=============================================================================
