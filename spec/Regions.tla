------------------------------ MODULE Regions ------------------------------
(***************************************************************************)
(* The region algebra of flatcontainer, recursive over a SHAPE descriptor. *)
(*                                                                         *)
(* A shape is a record describing a composition of region types, e.g.      *)
(*   [k |-> "slice", ic |-> "opt", isz |-> 8,                              *)
(*    inner |-> [k |-> "collapse", inner |-> [k |-> "cip", ic |-> "opt",   *)
(*    isz |-> 8, inner |-> [k |-> "string", inner |-> [k |-> "owned",      *)
(*    t |-> "u8", esz |-> 1]]]]]                                           *)
(* One operator per trait method; the state of every kind is shaped like   *)
(* the fields of the implementing struct (Level B), so that the            *)
(* layout-independent contract (Level A: RegionContract.tla) is CHECKED    *)
(* against it rather than assumed.                                         *)
(*                                                                         *)
(* Values: sequences for strings (bytes), slices, rows and tuples;         *)
(* [t |-> "none"] / [t |-> "some", v |-> x] for options;                   *)
(* [t |-> "ok" | "err", v |-> x] for results; scalars are opaque except    *)
(* for equality (f64 values carry a `nan` flag: NaN equals nothing).       *)
(* Indices: <<start, end>> pairs, naturals, or the same option / result /  *)
(* tuple wrappers around inner indices; a mirror region's index is the     *)
(* value itself.                                                           *)
(***************************************************************************)
EXTENDS Naturals, Sequences, FiniteSets

CONSTANT U32Limit   \* largest value stored in the u32 half of an IndexList. The real value
                    \* 4294967295 exceeds TLC integers; offsets inside bounded models never
                    \* reach it, so the binding configs use 2147483647. Model-only configs
                    \* scale it down to make the u32 -> u64 switch reachable (C02).

IC == INSTANCE IndexContainers WITH Zero <- 0,
                                    Mul <- LAMBDA s, k : s * k,
                                    Fits32 <- LAMBDA x : x <= U32Limit

None == [some |-> FALSE]
Some(x) == [some |-> TRUE, v |-> x]

\* the region that stores one row of column indices inside a ColumnsRegion
RowsShape(sh) == [k |-> "cip", ic |-> sh.ic, isz |-> 8,
                  inner |-> [k |-> "owned", t |-> "index", esz |-> sh.isz]]

RECURSIVE InitR(_), PushR(_, _, _), PushSeq(_, _, _, _), PushFields(_, _, _, _, _),
          PushCols(_, _, _, _, _), ReadR(_, _, _), ClearR(_, _), Equal(_, _, _),
          UsedR(_, _), WellFormed(_, _), MaxCols(_, _)

---------------------------------------------------------------------------
(* Default::default()                                                      *)
InitR(sh) ==
  CASE sh.k = "owned"    -> [data |-> <<>>]
    [] sh.k = "string"   -> [inner |-> InitR(sh.inner)]
    [] sh.k = "mirror"   -> [z |-> 0]
    [] sh.k = "vecreg"   -> [data |-> <<>>]
    [] sh.k = "option"   -> [inner |-> InitR(sh.inner)]
    [] sh.k = "result"   -> [oks |-> InitR(sh.ok), errs |-> InitR(sh.err)]
    [] sh.k = "tuple"    -> [fs |-> [i \in 1..Len(sh.fs) |-> InitR(sh.fs[i])]]
    [] sh.k = "slice"    -> [slices |-> IC!ICInit(sh.ic), inner |-> InitR(sh.inner)]
    [] sh.k = "collapse" -> [inner |-> InitR(sh.inner), last |-> None]
    [] sh.k = "cip"      -> [inner |-> InitR(sh.inner),
                             offs |-> IC!ICPush(IC!ICInit(sh.ic), 0),   \* "always stores element 0"
                             lastEnd |-> 0]
    [] sh.k = "columns"  -> [rows |-> InitR(RowsShape(sh)), cols |-> <<>>]

---------------------------------------------------------------------------
(* Equality as the value type implements it (PartialEq): used by           *)
(* CollapseSequence.  NaN is never equal to anything, itself included.     *)
ScalarEq(t, a, b) == IF t = "f64" THEN a = b /\ ~a.nan ELSE a = b

Equal(sh, a, b) ==
  CASE sh.k \in {"owned"} ->
         /\ Len(a) = Len(b)
         /\ \A i \in 1..Len(a) : ScalarEq(sh.t, a[i], b[i])
    [] sh.k \in {"mirror", "vecreg"} -> ScalarEq(sh.t, a, b)
    [] sh.k = "string"   -> a = b
    [] sh.k = "option"   -> /\ a.t = b.t
                            /\ a.t = "some" => Equal(sh.inner, a.v, b.v)
    [] sh.k = "result"   -> /\ a.t = b.t
                            /\ Equal(IF a.t = "ok" THEN sh.ok ELSE sh.err, a.v, b.v)
    [] sh.k = "tuple"    -> \A i \in 1..Len(sh.fs) : Equal(sh.fs[i], a[i], b[i])
    [] sh.k \in {"slice", "columns"} ->
         /\ Len(a) = Len(b)
         /\ \A i \in 1..Len(a) : Equal(sh.inner, a[i], b[i])
    [] sh.k \in {"collapse", "cip"} -> Equal(sh.inner, a, b)

---------------------------------------------------------------------------
(* Region::index                                                           *)
ReadR(sh, st, idx) ==
  CASE sh.k = "owned"    -> SubSeq(st.data, idx[1] + 1, idx[2])
    [] sh.k = "string"   -> ReadR(sh.inner, st.inner, idx)
    [] sh.k = "mirror"   -> idx
    [] sh.k = "vecreg"   -> st.data[idx + 1]
    [] sh.k = "option"   -> IF idx.t = "none" THEN [t |-> "none"]
                            ELSE [t |-> "some", v |-> ReadR(sh.inner, st.inner, idx.v)]
    [] sh.k = "result"   -> IF idx.t = "ok" THEN [t |-> "ok", v |-> ReadR(sh.ok, st.oks, idx.v)]
                            ELSE [t |-> "err", v |-> ReadR(sh.err, st.errs, idx.v)]
    [] sh.k = "tuple"    -> [i \in 1..Len(sh.fs) |-> ReadR(sh.fs[i], st.fs[i], idx[i])]
    [] sh.k = "slice"    -> [j \in 1..(idx[2] - idx[1]) |->
                               ReadR(sh.inner, st.inner, IC!ICIndex(st.slices, idx[1] + j - 1))]
    [] sh.k = "collapse" -> ReadR(sh.inner, st.inner, idx)
    [] sh.k = "cip"      -> ReadR(sh.inner, st.inner,
                                  <<IC!ICIndex(st.offs, idx), IC!ICIndex(st.offs, idx + 1)>>)
    [] sh.k = "columns"  -> LET row == ReadR(RowsShape(sh), st.rows, idx)
                            IN  [j \in 1..Len(row) |-> ReadR(sh.inner, st.cols[j], row[j])]

---------------------------------------------------------------------------
(* Push::push — returns [st |-> new state, idx |-> returned index].        *)
(* The input FORM (owned, reference, array, iterator, read item ...) is    *)
(* deliberately not a parameter: C20 says it must not matter.              *)

\* push every element of vs into one inner region, collecting the indices
PushSeq(sh, st, vs, acc) ==
  IF vs = <<>> THEN [st |-> st, idxs |-> acc]
  ELSE LET r == PushR(sh, st, Head(vs))
       IN  PushSeq(sh, r.st, Tail(vs), Append(acc, r.idx))

\* push field i of a tuple into region i
PushFields(shs, sts, vs, i, acc) ==
  IF i > Len(shs) THEN [sts |-> sts, idxs |-> acc]
  ELSE LET r == PushR(shs[i], sts[i], vs[i])
       IN  PushFields(shs, [sts EXCEPT ![i] = r.st], vs, i + 1, Append(acc, r.idx))

\* push cell j of a row into column j
PushCols(sh, cols, vs, j, acc) ==
  IF j > Len(vs) THEN [cols |-> cols, idxs |-> acc]
  ELSE LET r == PushR(sh, cols[j], vs[j])
       IN  PushCols(sh, [cols EXCEPT ![j] = r.st], vs, j + 1, Append(acc, r.idx))

PushR(sh, st, v) ==
  CASE sh.k = "owned" ->
         LET s == Len(st.data)
         IN  [st |-> [data |-> st.data \o v], idx |-> <<s, s + Len(v)>>]
    [] sh.k = "string" ->
         LET r == PushR(sh.inner, st.inner, v)
         IN  [st |-> [inner |-> r.st], idx |-> r.idx]
    [] sh.k = "mirror" -> [st |-> st, idx |-> v]
    [] sh.k = "vecreg" -> [st |-> [data |-> Append(st.data, v)], idx |-> Len(st.data)]
    [] sh.k = "option" ->
         IF v.t = "none" THEN [st |-> st, idx |-> [t |-> "none"]]
         ELSE LET r == PushR(sh.inner, st.inner, v.v)
              IN  [st |-> [inner |-> r.st], idx |-> [t |-> "some", v |-> r.idx]]
    [] sh.k = "result" ->
         IF v.t = "ok"
         THEN LET r == PushR(sh.ok, st.oks, v.v)
              IN  [st |-> [st EXCEPT !.oks = r.st], idx |-> [t |-> "ok", v |-> r.idx]]
         ELSE LET r == PushR(sh.err, st.errs, v.v)
              IN  [st |-> [st EXCEPT !.errs = r.st], idx |-> [t |-> "err", v |-> r.idx]]
    [] sh.k = "tuple" ->
         LET r == PushFields(sh.fs, st.fs, v, 1, <<>>)
         IN  [st |-> [fs |-> r.sts], idx |-> r.idxs]
    [] sh.k = "slice" ->
         \* each element goes to the inner region; their indices are appended to `slices`
         LET r     == PushSeq(sh.inner, st.inner, v, <<>>)
             start == IC!ICLen(st.slices)
         IN  [st |-> [slices |-> IC!ICExtend(st.slices, r.idxs), inner |-> r.st],
              idx |-> <<start, start + Len(v)>>]
    [] sh.k = "collapse" ->
         \* compare with the item at `last` using the value type's equality
         IF st.last.some /\ Equal(sh.inner, v, ReadR(sh.inner, st.inner, st.last.v))
         THEN [st |-> st, idx |-> st.last.v]
         ELSE LET r == PushR(sh.inner, st.inner, v)
              IN  [st |-> [inner |-> r.st, last |-> Some(r.idx)], idx |-> r.idx]
    [] sh.k = "cip" ->
         \* one end offset per push; the outward index is dense
         LET r    == PushR(sh.inner, st.inner, v)
             offs == IC!ICPush(st.offs, r.idx[2])
         IN  [st |-> [inner |-> r.st, offs |-> offs, lastEnd |-> r.idx[2]],
              idx |-> IC!ICLen(offs) - 2]
    [] sh.k = "columns" ->
         \* grow the columns to the row width, cell j goes to column j, the row of
         \* per-column indices is stored in `rows`
         LET n     == Len(st.cols)
             grown == IF Len(v) > n
                      THEN st.cols \o [i \in 1..(Len(v) - n) |-> InitR(sh.inner)]
                      ELSE st.cols
             r     == PushCols(sh.inner, grown, v, 1, <<>>)
             rr    == PushR(RowsShape(sh), st.rows, r.idxs)
         IN  [st |-> [rows |-> rr.st, cols |-> r.cols], idx |-> rr.idx]

---------------------------------------------------------------------------
(* Region::clear — content and bookkeeping go, allocations (and columns)   *)
(* may stay.                                                               *)
ClearR(sh, st) ==
  CASE sh.k = "owned"    -> [data |-> <<>>]
    [] sh.k = "string"   -> [inner |-> ClearR(sh.inner, st.inner)]
    [] sh.k = "mirror"   -> st
    [] sh.k = "vecreg"   -> [data |-> <<>>]
    [] sh.k = "option"   -> [inner |-> ClearR(sh.inner, st.inner)]
    [] sh.k = "result"   -> [oks |-> ClearR(sh.ok, st.oks), errs |-> ClearR(sh.err, st.errs)]
    [] sh.k = "tuple"    -> [fs |-> [i \in 1..Len(sh.fs) |-> ClearR(sh.fs[i], st.fs[i])]]
    [] sh.k = "slice"    -> [slices |-> IC!ICClear(st.slices), inner |-> ClearR(sh.inner, st.inner)]
    [] sh.k = "collapse" -> [inner |-> ClearR(sh.inner, st.inner), last |-> None]
    [] sh.k = "cip"      -> [inner |-> ClearR(sh.inner, st.inner),
                             offs |-> IC!ICPush(IC!ICClear(st.offs), 0),
                             lastEnd |-> 0]
    [] sh.k = "columns"  -> [rows |-> ClearR(RowsShape(sh), st.rows),
                             cols |-> [j \in 1..Len(st.cols) |-> ClearR(sh.inner, st.cols[j])]]

---------------------------------------------------------------------------
(* Region::merge_regions — an empty region sized for `srcs` (a sequence of *)
(* states of the same shape). Contents: none. Bookkeeping: as Default,     *)
(* except that ColumnsRegion pre-creates max #columns.                     *)
MaxCols(sts, i) == IF i > Len(sts) THEN 0
                   ELSE LET m == MaxCols(sts, i + 1)
                        IN  IF Len(sts[i].cols) > m THEN Len(sts[i].cols) ELSE m

RECURSIVE MergeR(_, _)
MergeR(sh, srcs) ==
  CASE sh.k = "option"   -> [inner |-> MergeR(sh.inner, [i \in 1..Len(srcs) |-> srcs[i].inner])]
    [] sh.k = "string"   -> [inner |-> MergeR(sh.inner, [i \in 1..Len(srcs) |-> srcs[i].inner])]
    [] sh.k = "result"   -> [oks  |-> MergeR(sh.ok,  [i \in 1..Len(srcs) |-> srcs[i].oks]),
                             errs |-> MergeR(sh.err, [i \in 1..Len(srcs) |-> srcs[i].errs])]
    [] sh.k = "tuple"    -> [fs |-> [f \in 1..Len(sh.fs) |->
                                       MergeR(sh.fs[f], [i \in 1..Len(srcs) |-> srcs[i].fs[f]])]]
    [] sh.k = "slice"    -> [slices |-> IC!ICInit(sh.ic),
                             inner |-> MergeR(sh.inner, [i \in 1..Len(srcs) |-> srcs[i].inner])]
    [] sh.k = "collapse" -> [inner |-> MergeR(sh.inner, [i \in 1..Len(srcs) |-> srcs[i].inner]),
                             last |-> None]          \* the sources' last item is NOT inherited
    [] sh.k = "cip"      -> [inner |-> MergeR(sh.inner, [i \in 1..Len(srcs) |-> srcs[i].inner]),
                             offs |-> IC!ICPush(IC!ICInit(sh.ic), 0),
                             lastEnd |-> 0]
    [] sh.k = "columns"  ->
         LET n == MaxCols(srcs, 1)
         IN  [rows |-> MergeR(RowsShape(sh), [i \in 1..Len(srcs) |-> srcs[i].rows]),
              cols |-> [c \in 1..n |->
                          LET having == SelectSeq(srcs, LAMBDA s : Len(s.cols) >= c)
                          IN  MergeR(sh.inner, [i \in 1..Len(having) |-> having[i].cols[c]])]]
    [] OTHER -> InitR(sh)

---------------------------------------------------------------------------
(* heap_size: sum of the `used` halves of all reported pairs, in bytes.    *)
RECURSIVE SumSeq(_)
SumSeq(s) == IF s = <<>> THEN 0 ELSE Head(s) + SumSeq(Tail(s))

UsedR(sh, st) ==
  CASE sh.k = "owned"    -> sh.esz * Len(st.data)
    [] sh.k = "string"   -> UsedR(sh.inner, st.inner)
    [] sh.k = "mirror"   -> 0
    [] sh.k = "vecreg"   -> sh.esz * Len(st.data)
    [] sh.k = "option"   -> UsedR(sh.inner, st.inner)
    [] sh.k = "result"   -> UsedR(sh.ok, st.oks) + UsedR(sh.err, st.errs)
    [] sh.k = "tuple"    -> SumSeq([i \in 1..Len(sh.fs) |-> UsedR(sh.fs[i], st.fs[i])])
    [] sh.k = "slice"    -> IC!ICHeapUsed(st.slices, sh.isz) + UsedR(sh.inner, st.inner)
    [] sh.k = "collapse" -> UsedR(sh.inner, st.inner)
    [] sh.k = "cip"      -> IC!ICHeapUsed(st.offs, 8) + UsedR(sh.inner, st.inner)
    [] sh.k = "columns"  -> sh.rsz * Len(st.cols)
                            + SumSeq([j \in 1..Len(st.cols) |-> UsedR(sh.inner, st.cols[j])])
                            + UsedR(RowsShape(sh), st.rows)

\* C18 lower bound: payload bytes plus index entries of everything stored (after
\* deduplication and index compression); the per-column struct bytes are bookkeeping.
RECURSIVE PayloadR(_, _)
PayloadR(sh, st) ==
  CASE sh.k = "string"   -> PayloadR(sh.inner, st.inner)
    [] sh.k = "option"   -> PayloadR(sh.inner, st.inner)
    [] sh.k = "result"   -> PayloadR(sh.ok, st.oks) + PayloadR(sh.err, st.errs)
    [] sh.k = "tuple"    -> SumSeq([i \in 1..Len(sh.fs) |-> PayloadR(sh.fs[i], st.fs[i])])
    [] sh.k = "slice"    -> IC!ICHeapUsed(st.slices, sh.isz) + PayloadR(sh.inner, st.inner)
    [] sh.k = "collapse" -> PayloadR(sh.inner, st.inner)
    [] sh.k = "cip"      -> IC!ICHeapUsed(st.offs, 8) + PayloadR(sh.inner, st.inner)
    [] sh.k = "columns"  -> SumSeq([j \in 1..Len(st.cols) |-> PayloadR(sh.inner, st.cols[j])])
                            + PayloadR(RowsShape(sh), st.rows)
    [] OTHER -> UsedR(sh, st)

---------------------------------------------------------------------------
(* Structural invariants of Level-B states: why the contract holds.        *)
WellFormed(sh, st) ==
  CASE sh.k = "string"   -> WellFormed(sh.inner, st.inner)
    [] sh.k = "option"   -> WellFormed(sh.inner, st.inner)
    [] sh.k = "result"   -> WellFormed(sh.ok, st.oks) /\ WellFormed(sh.err, st.errs)
    [] sh.k = "tuple"    -> \A i \in 1..Len(sh.fs) : WellFormed(sh.fs[i], st.fs[i])
    [] sh.k = "slice"    -> WellFormed(sh.inner, st.inner)
    [] sh.k = "collapse" -> WellFormed(sh.inner, st.inner)
    [] sh.k = "cip"      ->
         /\ WellFormed(sh.inner, st.inner)
         /\ IC!ICLen(st.offs) >= 1
         /\ IC!ICIndex(st.offs, 0) = 0                                   \* leading 0
         /\ IC!ICIndex(st.offs, IC!ICLen(st.offs) - 1) = st.lastEnd      \* last end remembered
         /\ \A i \in 1..(IC!ICLen(st.offs) - 1) :                        \* offsets never decrease
              IC!ICIndex(st.offs, i - 1) <= IC!ICIndex(st.offs, i)
    [] sh.k = "columns"  ->
         /\ WellFormed(RowsShape(sh), st.rows)
         /\ \A j \in 1..Len(st.cols) : WellFormed(sh.inner, st.cols[j])
    [] OTHER -> TRUE

---------------------------------------------------------------------------
(* Allocation discipline (C17): the capacity ledger.                       *)
(* Applies to the vector-backed structural regions: owned slices, strings, *)
(* slices of regions (Vec index container), options, results, tuples,      *)
(* plain vectors as regions, mirrors.                                      *)
(* StorLens lists the element counts of all backing vectors in a fixed     *)
(* order; the *Amt operators list, in the same order, how many additional  *)
(* elements each pre-sizing call reserves - written as the code writes     *)
(* them.  Vec::reserve(n) guarantees capacity >= len + n, and a Vec never  *)
(* reallocates while len <= capacity; so "pushing exactly the announced    *)
(* contents performs no reallocation" is the arithmetic fact               *)
(*   StorLens(after the pushes) <= StorLens(before) + amounts,             *)
(* which RegionsMC checks for every reachable state and batch.             *)
RECURSIVE Structural(_)
Structural(sh) ==
  CASE sh.k \in {"owned", "mirror", "vecreg"} -> TRUE
    [] sh.k \in {"string", "option"} -> Structural(sh.inner)
    [] sh.k = "result" -> Structural(sh.ok) /\ Structural(sh.err)
    [] sh.k = "tuple" -> \A i \in 1..Len(sh.fs) : Structural(sh.fs[i])
    [] sh.k = "slice" -> sh.ic = "vec" /\ Structural(sh.inner)
    [] OTHER -> FALSE

RECURSIVE Concat(_)
Concat(ss) == IF ss = <<>> THEN <<>> ELSE Head(ss) \o Concat(Tail(ss))

RECURSIVE StorLens(_, _)
StorLens(sh, st) ==
  CASE sh.k \in {"owned", "vecreg"} -> <<Len(st.data)>>
    [] sh.k = "mirror" -> <<>>
    [] sh.k \in {"string", "option"} -> StorLens(sh.inner, st.inner)
    [] sh.k = "result" -> StorLens(sh.ok, st.oks) \o StorLens(sh.err, st.errs)
    [] sh.k = "tuple" -> Concat([i \in 1..Len(sh.fs) |-> StorLens(sh.fs[i], st.fs[i])])
    [] sh.k = "slice" -> <<IC!ICLen(st.slices)>> \o StorLens(sh.inner, st.inner)

\* reserve_items(items): what each region reserves in each of its vectors
RECURSIVE ReserveItemsAmt(_, _)
ReserveItemsAmt(sh, items) ==
  CASE sh.k = "owned" -> <<SumSeq([i \in 1..Len(items) |-> Len(items[i])])>>      \* sum of the lengths
    [] sh.k = "vecreg" -> <<Len(items)>>                                            \* items.count()
    [] sh.k = "mirror" -> <<>>
    [] sh.k = "string" -> ReserveItemsAmt(sh.inner, items)                          \* as bytes
    [] sh.k = "option" ->                                                            \* filter_map(Some)
         ReserveItemsAmt(sh.inner, LET somes == SelectSeq(items, LAMBDA v : v.t = "some")
                                   IN  [i \in 1..Len(somes) |-> somes[i].v])
    [] sh.k = "result" ->                                                            \* oks and errs separately
         LET oks  == SelectSeq(items, LAMBDA v : v.t = "ok")
             errs == SelectSeq(items, LAMBDA v : v.t = "err")
         IN  ReserveItemsAmt(sh.ok, [i \in 1..Len(oks) |-> oks[i].v])
             \o ReserveItemsAmt(sh.err, [i \in 1..Len(errs) |-> errs[i].v])
    [] sh.k = "tuple" ->                                                             \* per-field projection
         Concat([f \in 1..Len(sh.fs) |-> ReserveItemsAmt(sh.fs[f], [i \in 1..Len(items) |-> items[i][f]])])
    [] sh.k = "slice" ->                                                             \* slices + flattened inner
         <<SumSeq([i \in 1..Len(items) |-> Len(items[i])])>>
         \o ReserveItemsAmt(sh.inner, Concat(items))

\* reserve_regions(regions) / merge_regions(regions): the sum of the sources' vector lengths
RECURSIVE AddSeqs(_, _)
AddSeqs(a, b) == [i \in 1..Len(a) |-> a[i] + b[i]]
RECURSIVE SumLens(_, _, _)
SumLens(sh, srcs, zero) == IF srcs = <<>> THEN zero ELSE AddSeqs(StorLens(sh, Head(srcs)), SumLens(sh, Tail(srcs), zero))
Zeros(sh) == [i \in 1..Len(StorLens(sh, InitR(sh))) |-> 0]
ReserveRegionsAmt(sh, srcs) == SumLens(sh, srcs, Zeros(sh))

Fits(lens, guaranteed) == \A i \in 1..Len(lens) : lens[i] <= guaranteed[i]

RECURSIVE PushAll(_, _, _)
PushAll(sh, st, vs) == IF vs = <<>> THEN st ELSE PushAll(sh, PushR(sh, st, Head(vs)).st, Tail(vs))

---------------------------------------------------------------------------
(* Read-item algebra (C13, C14, C15).                                      *)

\* the value tagged PANIC: what a fail-stop accessor "returns"
PANIC == [panic |-> TRUE]

\* positional accessor of slice / row read items
ItemGet(item, i) == IF i < Len(item) THEN item[i + 1] ELSE PANIC

\* IntoOwned::clone_onto as the code writes it: zip-overwrite, extend, truncate for
\* sequences; variant switch for option / result; field-wise for tuples.
RECURSIVE CloneOnto(_, _, _)
CloneOnto(sh, x, t) ==
  CASE sh.k \in {"slice", "columns"} ->
         LET r    == IF Len(x) < Len(t) THEN Len(x) ELSE Len(t)
             over == [i \in 1..Len(t) |-> IF i <= r THEN CloneOnto(sh.inner, x[i], t[i]) ELSE t[i]]
             ext  == over \o SubSeq(x, r + 1, Len(x))
         IN  SubSeq(ext, 1, Len(x))
    [] sh.k = "option" ->
         IF x.t = "some" /\ t.t = "some"
         THEN [t |-> "some", v |-> CloneOnto(sh.inner, x.v, t.v)]
         ELSE x
    [] sh.k = "result" ->
         IF x.t = t.t
         THEN [t |-> x.t, v |-> CloneOnto(IF x.t = "ok" THEN sh.ok ELSE sh.err, x.v, t.v)]
         ELSE x
    [] sh.k = "tuple" -> [i \in 1..Len(sh.fs) |-> CloneOnto(sh.fs[i], x[i], t[i])]
    [] sh.k \in {"collapse", "cip"} -> CloneOnto(sh.inner, x, t)
    [] OTHER -> x

\* Ordering of read items = lexicographic ordering of the owned values (C15).
\* Defined for the comparable shapes whose scalars are numbers (u8 / bytes).
Flip(c) == IF c = "lt" THEN "gt" ELSE IF c = "gt" THEN "lt" ELSE "eq"
RECURSIVE CmpV(_, _, _), CmpSeq(_, _, _)
CmpSeq(sh, a, b) ==
  IF a = <<>> /\ b = <<>> THEN "eq"
  ELSE IF a = <<>> THEN "lt"
  ELSE IF b = <<>> THEN "gt"
  ELSE LET c == CmpV(sh, Head(a), Head(b))
       IN  IF c # "eq" THEN c ELSE CmpSeq(sh, Tail(a), Tail(b))
CmpV(sh, a, b) ==
  CASE sh.k \in {"mirror", "vecreg", "scalar"} -> IF a < b THEN "lt" ELSE IF a > b THEN "gt" ELSE "eq"
    [] sh.k = "owned"  -> CmpSeq([k |-> "scalar"], a, b)
    [] sh.k = "string" -> CmpSeq([k |-> "scalar"], a, b)
    [] sh.k = "option" -> IF a.t = "none" /\ b.t = "none" THEN "eq"
                          ELSE IF a.t = "none" THEN "lt"
                          ELSE IF b.t = "none" THEN "gt"
                          ELSE CmpV(sh.inner, a.v, b.v)
    [] sh.k \in {"slice", "columns"} -> CmpSeq(sh.inner, a, b)
    [] sh.k \in {"collapse", "cip"} -> CmpV(sh.inner, a, b)

\* what the comparison operators of two read items must answer
CmpAnswer(sh, a, b) ==
  LET c == CmpV(sh, a, b)
  IN  [eq |-> c = "eq", ne |-> c # "eq", partial_cmp |-> c, cmp |-> c, rev_eq |-> c = "eq", rev_cmp |-> Flip(c)]
=============================================================================
