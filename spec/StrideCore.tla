------------------------------ MODULE StrideCore ------------------------------
(***************************************************************************)
(* `Stride` of src/impls/index.rs: Empty | Zero | Striding(stride, count)  *)
(* | Saturated(stride, count, reps), over abstract numbers (see            *)
(* IndexContainers.tla, which extends this module).  Kept free of          *)
(* recursive definitions so that proofs/StrideProof.tla can be checked by  *)
(* TLAPS against these very definitions.                                   *)
(***************************************************************************)
EXTENDS Naturals, Sequences

CONSTANTS Zero, Mul(_, _)

---------------------------------------------------------------------------
(* Stride: Empty | Zero | Striding(stride, count) | Saturated(stride, count, reps) *)

StrideInit == [tag |-> "E", s |-> Zero, c |-> 0, r |-> 0]

\* Stride::push — returns [ok, st]; st is untouched when ok = FALSE
StridePush(st, x) ==
  CASE st.tag = "E" ->
         IF x = Zero THEN [ok |-> TRUE,  st |-> [tag |-> "Z", s |-> Zero, c |-> 0, r |-> 0]]
                     ELSE [ok |-> FALSE, st |-> st]
    [] st.tag = "Z" -> [ok |-> TRUE, st |-> [tag |-> "S", s |-> x, c |-> 2, r |-> 0]]
    [] st.tag = "S" ->
         IF Mul(st.s, st.c) = x
         THEN [ok |-> TRUE, st |-> [st EXCEPT !.c = @ + 1]]
         ELSE IF Mul(st.s, st.c - 1) = x
              THEN [ok |-> TRUE, st |-> [st EXCEPT !.tag = "T", !.r = 1]]
              ELSE [ok |-> FALSE, st |-> st]
    [] st.tag = "T" ->
         IF Mul(st.s, st.c - 1) = x
         THEN [ok |-> TRUE, st |-> [st EXCEPT !.r = @ + 1]]
         ELSE [ok |-> FALSE, st |-> st]

StrideLen(st) ==
  CASE st.tag = "E" -> 0
    [] st.tag = "Z" -> 1
    [] st.tag = "S" -> st.c
    [] st.tag = "T" -> st.c + st.r

\* 0-based, defined for i < StrideLen(st)
StrideIndex(st, i) ==
  CASE st.tag = "Z" -> Zero
    [] st.tag = "S" -> Mul(st.s, i)
    [] st.tag = "T" -> IF i < st.c THEN Mul(st.s, i) ELSE Mul(st.s, st.c - 1)

StrideDenote(st) == [i \in 1..StrideLen(st) |-> StrideIndex(st, i - 1)]

=============================================================================
