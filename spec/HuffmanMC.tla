----------------------------- MODULE HuffmanMC -----------------------------
(***************************************************************************)
(* Bounded model of HuffmanContainer histories: a pool of containers,      *)
(* pushes of small items, merges (with EVERY optimal code as a possible    *)
(* outcome), clears.  Checks the contract on the model and prints each     *)
(* history as a scenario (SCN line) that the harness executes on           *)
(* HuffmanContainer<u8> / <u16>; the recorded trace is then validated      *)
(* against TraceHuffman.tla (the code's tie-breaking is bound from the     *)
(* log, not predicted).                                                    *)
(***************************************************************************)
EXTENDS Huffman, TLC, Json

CONSTANTS NSlots, MaxRaw, MaxMerge, MaxCoded, MaxClear, ItemSel, MaxCodeLen, Emit

VARIABLES slots, path, nraw, nmerge, ncoded, nclear
vars == <<slots, path, nraw, nmerge, ncoded, nclear>>
\* the per-kind budgets are part of the view: exploration is exhaustive within them
View == <<slots, nraw, nmerge, ncoded, nclear>>
SlotIds == 1..NSlots
Outside == 9

Rep(x, n) == [i \in 1..n |-> x]
\* items pushed into RAW containers: they build the frequency profile (1 symbol, equal counts,
\* skewed counts, Fibonacci-like counts that force long codes)
RawItems ==
  CASE ItemSel = "quick" ->
         {<<1>>, <<1, 2>>, <<1, 1, 2, 3>>, <<1, 2, 3, 4>>, <<>>,
          Rep(1, 5) \o Rep(2, 3) \o Rep(3, 2) \o <<4, 5>>}
    [] ItemSel = "thorough" ->
         {<<1>>, <<1, 1>>, <<1, 2>>, <<1, 1, 2>>, <<1, 1, 2, 3>>, <<1, 2, 3>>, <<1, 2, 3, 4>>, <<>>,
          Rep(1, 5) \o Rep(2, 3) \o Rep(3, 2) \o <<4, 5>>,
          Rep(1, 8) \o Rep(2, 5) \o Rep(3, 3) \o Rep(4, 2) \o <<5, 6>>}
\* items pushed into CODED containers: empty, short, outside the statistics, and long enough to
\* contain one and two whole bytes at any alignment
CodedItems ==
  CASE ItemSel = "quick" ->
         {<<>>, <<1>>, <<2>>, <<1, 2>>, <<3, 1>>, <<Outside>>, <<1, Outside>>, Rep(1, 9), <<1, 2, 3, 4, 4, 3, 2, 1>>}
    [] ItemSel = "thorough" ->
         {<<>>, <<1>>, <<2>>, <<3>>, <<1, 2>>, <<2, 1>>, <<3, 1>>, <<4, 4>>, <<Outside>>, <<1, Outside>>, <<5, 6>>,
          Rep(1, 9), Rep(2, 7), <<1, 2, 3, 4, 4, 3, 2, 1>>, Rep(1, 17), Rep(3, 9)}

Init == /\ slots = [s \in SlotIds |-> RawSlot] /\ path = <<>>
        /\ nraw = 0 /\ nmerge = 0 /\ ncoded = 0 /\ nclear = 0

Push(s, v) ==
  /\ ~slots[s].poisoned
  /\ IF slots[s].mode = "raw"
     THEN nraw < MaxRaw /\ v \in RawItems /\ nraw' = nraw + 1 /\ UNCHANGED ncoded
     ELSE ncoded < MaxCoded /\ v \in CodedItems /\ ncoded' = ncoded + 1 /\ UNCHANGED nraw
  /\ slots' = [slots EXCEPT ![s] = HPush(@, v)]
  /\ path' = Append(path, [op |-> "push", s |-> s, v |-> v])
  /\ UNCHANGED <<nmerge, nclear>>

Merge(d, srcs, lens) ==
  /\ nmerge < MaxMerge
  /\ \A i \in 1..Len(srcs) : ~slots[srcs[i]].poisoned
  /\ OptimalCode(lens, HMergedCounts([i \in 1..Len(srcs) |-> slots[srcs[i]]]))
  /\ slots' = [slots EXCEPT ![d] = CodedSlot(lens)]
  /\ path' = Append(path, [op |-> "merge", d |-> d, srcs |-> srcs])
  /\ nmerge' = nmerge + 1
  /\ UNCHANGED <<nraw, ncoded, nclear>>

Clear(s) ==
  /\ nclear < MaxClear
  /\ ~slots[s].poisoned
  /\ slots[s] # RawSlot
  /\ slots' = [slots EXCEPT ![s] = RawSlot]
  /\ path' = Append(path, [op |-> "clear", s |-> s])
  /\ nclear' = nclear + 1
  /\ UNCHANGED <<nraw, nmerge, ncoded>>

SrcLists == {<<>>} \cup {<<s>> : s \in SlotIds} \cup {[i \in 1..NSlots |-> i]}
Items == RawItems \cup CodedItems

Next ==
  \/ \E s \in SlotIds, v \in Items : Push(s, v)
  \/ \E d \in SlotIds, srcs \in SrcLists :
       LET counts == HMergedCounts([i \in 1..Len(srcs) |-> slots[srcs[i]]])
       IN  \E lens \in OptimalTables(counts, MaxCodeLen) : Merge(d, srcs, lens)
  \/ \E s \in SlotIds : Clear(s)

Spec == Init /\ [][Next]_vars

---------------------------------------------------------------------------
Tiling == \A s \in SlotIds : ~slots[s].poisoned => TilingOf(slots[s])
CodeSane == \A s \in SlotIds : CodeSaneOf(slots[s])

\* refusal exactly for symbols outside the statistics; accepted items are stored as themselves
RefuseExact == \A s \in SlotIds : \A v \in Items :
                 ~slots[s].poisoned =>
                   LET r == HPush(slots[s], v)
                   IN  r.poisoned <=> (slots[s].mode = "coded" /\ \E i \in 1..Len(v) : v[i] \notin DOMAIN slots[s].lens)

\* the two-queue optimum equals the brute-force minimum over ALL admissible length tables, and the
\* textbook construction attains it: validates the oracle itself, once, on every frequency profile
\* over 1..4 symbols with counts 1..4 (340 profiles)
Profiles == UNION {[1..n -> 1..4] : n \in 1..4}
ASSUME OracleAgrees ==
  \A c \in Profiles : /\ OptimalCost(c) = BruteMinCost(c, 4)
                       /\ OptimalCode(HuffLens(c), c)

\* statistics count what was pushed since creation / clear
StatsExact == \A s \in SlotIds : ~slots[s].poisoned =>
                slots[s].stats = MergeCounts([k \in 1..Len(slots[s].issued) |-> AddCounts(NoStats, slots[s].issued[k].v)])

EmitScenario == Emit => PrintT(<<"SCN", ToJson([ops |-> path'])>>)
=============================================================================
