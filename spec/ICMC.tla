-------------------------------- MODULE ICMC --------------------------------
(***************************************************************************)
(* State machine over ONE index container of src/impls/index.rs, with      *)
(* exact 64-bit values (Word64).  Decides C05 (faithful, never panics,     *)
(* Stride accepts exactly the documented pattern) and C19 (documented      *)
(* cost rule) on the model, and prints one replayable edge per transition  *)
(* for the Rust harness (spec -> impl conformance).                        *)
(***************************************************************************)
EXTENDS Naturals, Sequences, FiniteSets, TLC, Json, Word64

CONSTANTS Kinds,        \* subset of {"vec", "stride", "list", "opt"}
          AlphaSel,     \* "full" | "small" | "big"
          MaxOps,       \* bound on the history length
          MaxGhost,     \* bound on content-invisible ops (reserve, copy) per history
          ExtendOn,     \* TRUE: include extend(batch) actions
          Emit          \* TRUE: print one EDGE line per transition

IC == INSTANCE IndexContainers WITH Zero <- WZero, Mul <- WMulSmall, Fits32 <- WFitsU32

VARIABLES kind,     \* which container this behaviour is about
          ic,       \* its implementation-shaped state
          pushed,   \* ghost: the sequence it must denote
          ghost,    \* ghost: kinds of the invisible ops taken (part of the view so that
                    \*        histories continue after each kind of them)
          path,     \* history of operations (hidden by the VIEW)
          res       \* result of the last operation (hidden by the VIEW)

vars == <<kind, ic, pushed, ghost, path, res>>
View == <<kind, ic, pushed, ghost, Len(path)>>   \* depth is part of the view: exploration is exhaustive to MaxOps whatever the worker schedule

Alphabet ==
  CASE AlphaSel = "full"  -> {WZero, W(1), W(2), W(3), U32MAX, U32MAXP1, TWO63, USIZEMAXM1, USIZEMAX}
    [] AlphaSel = "small" -> {WZero, W(1), W(2), W(3), W(4)}
    [] AlphaSel = "big"   -> {WZero, W(1), U32MAX, U32MAXP1, TWO63, USIZEMAX}
    \* offsets as ConsecutiveIndexPairs / ColumnsRegion produce them (non-decreasing, starting at 0) with a stride of
    \* 2^31 that runs past u32::MAX, a value that breaks it, and its next multiple: 0, s, 2s, 3s, 3s+1, 4s
    \* offsets whose items have 2^63 elements (zero-sized payloads): stride * count leaves usize at the third offset
    [] AlphaSel = "monobig" -> {WZero, <<0, 0, 0, 16384>>, TWO63, <<0, 0, 0, 49152>>, USIZEMAXM1, USIZEMAX}
    [] AlphaSel = "mono"  -> {WZero, <<0, 32768, 0, 0>>, <<0, 0, 1, 0>>, <<0, 32768, 1, 0>>, <<1, 32768, 1, 0>>, <<0, 0, 2, 0>>}

\* batches for extend: every pair over a reduced alphabet, plus the empty batch
ExtendBatches == {<<>>} \cup {<<a, b>> : a \in {WZero, W(1), U32MAXP1}, b \in {WZero, W(1), W(2), U32MAX}}

InitOf(k) == IF k = "stride" THEN IC!StrideInit ELSE IC!ICInit(k)

Init == /\ kind \in Kinds
        /\ ic = InitOf(kind)
        /\ pushed = <<>>
        /\ ghost = <<>>
        /\ path = <<>>
        /\ res = [ok |-> TRUE]

Push(x) ==
  /\ path' = Append(path, [op |-> "push", x |-> x])
  /\ IF kind = "stride"
     THEN LET r == IC!StridePush(ic, x)
          IN  /\ ic' = r.st
              /\ pushed' = IF r.ok THEN Append(pushed, x) ELSE pushed
              /\ res' = [ok |-> r.ok]
     ELSE /\ ic' = IC!ICPush(ic, x)
          /\ pushed' = Append(pushed, x)
          /\ res' = [ok |-> TRUE]
  /\ UNCHANGED <<kind, ghost>>

Extend(xs) ==
  /\ kind # "stride"
  /\ path' = Append(path, [op |-> "extend", xs |-> xs])
  /\ ic' = IC!ICExtend(ic, xs)
  /\ pushed' = pushed \o xs
  /\ res' = [ok |-> TRUE]
  /\ UNCHANGED <<kind, ghost>>

Clear ==
  /\ path' = Append(path, [op |-> "clear"])
  /\ ic' = InitOf(kind)
  /\ pushed' = <<>>
  /\ res' = [ok |-> TRUE]
  /\ UNCHANGED <<kind, ghost>>

\* reserve(n), clone, clone_from into a dirty target, serde round trip:
\* none may change what the container denotes nor how it continues.
Invisible(o) ==
  /\ Len(ghost) < MaxGhost
  /\ o = "reserve" => kind # "stride"
  /\ path' = Append(path, [op |-> o])
  /\ ghost' = Append(ghost, o)
  /\ res' = [ok |-> TRUE]
  /\ UNCHANGED <<kind, ic, pushed>>

Next == /\ Len(path) < MaxOps
        /\ \/ \E x \in Alphabet : Push(x)
           \/ ExtendOn /\ \E xs \in ExtendBatches : Extend(xs)
           \/ Clear
           \/ \E o \in {"reserve", "clone", "clone_from", "serde"} : Invisible(o)

Spec == Init /\ [][Next]_vars

Bound == Len(path) <= MaxOps

---------------------------------------------------------------------------
Denote == IF kind = "stride" THEN IC!StrideDenote(ic) ELSE IC!ICDenote(ic)
Length == IF kind = "stride" THEN IC!StrideLen(ic) ELSE IC!ICLen(ic)
Used   == IF kind = "stride" THEN 0 ELSE IC!ICHeapUsed(ic, 8)

\* C05: the container IS the pushed sequence
Faithful == Denote = pushed
LenAgrees == Length = Len(pushed)
\* no stored or computed element is the overflow marker: index(i) is total for i < len
NoOverflowValue == \A i \in 1..Len(Denote) : IsWord(Denote[i])
\* the positional formula used by the trace monitor is the denotation
IndexAtAgrees == kind # "stride" => \A i \in 0..(Length - 1) : IC!ICIndexAt(ic, i) = IC!ICIndex(ic, i)
\* Stride accepts exactly the documented pattern
StrideExact == kind = "stride" => IC!IsStrideShape(pushed)
StrideRejectsOnlyBreaks ==
  kind = "stride" =>
    \A x \in Alphabet : IC!StridePush(ic, x).ok <=> IC!IsStrideShape(Append(pushed, x))
StrideRejectIsNoop ==
  kind = "stride" => \A x \in Alphabet : ~IC!StridePush(ic, x).ok => IC!StridePush(ic, x).st = ic

\* C19: heap bytes equal the documented cost computed from the pushed sequence alone
CostRule == kind # "stride" => Used = IC!DocumentedCost(kind, pushed, 8)

\* structure that explains why (C02 for index containers)
ListShape(l) == /\ \A i \in 1..Len(l.smol) : WFitsU32(l.smol[i])
                /\ l.chonk # <<>> => ~WFitsU32(l.chonk[1])
Structure ==
  /\ kind = "list" => ListShape(ic.l)
  /\ kind = "opt" => /\ ListShape(ic.sp)
                     /\ IC!ListLen(ic.sp) > 0 => ~IC!StridePush(ic.st, IC!ListDenote(ic.sp)[1]).ok

\* append-only: nothing but clear changes an element already pushed
IsPrefixOf(a, b) == Len(a) <= Len(b) /\ SubSeq(b, 1, Len(a)) = a
AppendOnly == [][pushed' = <<>> \/ IsPrefixOf(pushed, pushed')]_vars
FrozenParts ==
  [][ /\ (kind = "list" /\ ic.l.chonk # <<>> /\ pushed' # <<>>) => ic'.l.smol = ic.l.smol
      /\ (kind = "opt" /\ IC!ListLen(ic.sp) > 0 /\ pushed' # <<>>) => ic'.st = ic.st ]_vars

---------------------------------------------------------------------------
Obs == [len |-> Length, items |-> Denote, used |-> Used]

EmitEdge ==
  Emit => PrintT(<<"EDGE", ToJson([kind |-> kind', path |-> path', res |-> res',
                                   obs |-> [len |-> Length', items |-> Denote', used |-> Used']])>>)
=============================================================================
