--------------------------- MODULE IndexContainers ---------------------------
(***************************************************************************)
(* The index containers of src/impls/index.rs: Vec, Stride, IndexList,     *)
(* IndexOptimized.  State is shaped like the implementation's fields.      *)
(* Numbers are abstract: the module is instantiated once with plain        *)
(* naturals (offsets inside regions, Regions.tla) and once with Word64     *)
(* limbs (ICMC.tla, properties C05 / C19).                                 *)
(*                                                                         *)
(*   Zero        the number 0                                              *)
(*   Mul(s, k)   s * k over the naturals, k a small natural; a product     *)
(*               above usize::MAX is a value that equals no number         *)
(*   Fits32(x)   x <= u32::MAX                                             *)
(***************************************************************************)
EXTENDS Naturals, Sequences, IndexCore   \* IndexCore (which extends StrideCore) declares Zero, Mul(_, _), Fits32(_)
\* and specifies Stride, IndexList, IndexOptimized, Vec and the documented cost rule

---------------------------------------------------------------------------
(* extend(batch) = repeated push                                           *)
RECURSIVE ICExtend(_, _)
ICExtend(ic, xs) == IF xs = <<>> THEN ic ELSE ICExtend(ICPush(ic, Head(xs)), Tail(xs))

=============================================================================
