SPECIFICATION Spec
INVARIANTS TagsFree LearntConsistent
CHECK_DEADLOCK FALSE
