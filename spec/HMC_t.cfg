SPECIFICATION Spec
CONSTANTS
  NSlots = 2
  MaxRaw = 1
  MaxMerge = 2
  MaxCoded = 2
  MaxClear = 1
  ItemSel = "quick"
  MaxCodeLen = 5
  Emit = TRUE
VIEW View
ACTION_CONSTRAINT EmitScenario
INVARIANTS Tiling CodeSane RefuseExact StatsExact
CHECK_DEADLOCK FALSE
