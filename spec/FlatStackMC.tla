----------------------------- MODULE FlatStackMC -----------------------------
(***************************************************************************)
(* FlatStack<R, S>: an index container S of the indices returned by a      *)
(* region R (src/lib.rs).  One action per public call.  The stack must     *)
(* denote the plain sequence of copied values (C03) for every index        *)
(* container it can be parameterised with; with the optimised container    *)
(* over a dense-index region it spends no heap on indices (C19).           *)
(***************************************************************************)
EXTENDS Naturals, Sequences, FiniteSets, TLC, Json, Domains

CONSTANTS SubjectNames, MaxOps, MaxGhost, DomSize, Ops, Emit, U32Limit

INSTANCE Regions

Stacks   == JsonDeserialize("stacks.json")
Subjects == {Stacks[i] : i \in {j \in 1..Len(Stacks) : Stacks[j].name \in SubjectNames}}

VARIABLES subj,    \* catalogue entry: region shape + index container kind
          st,      \* [ic |-> index container state, region |-> region state]
          copied,  \* ghost: the sequence the stack must denote
          ghost,   \* kinds of the operations so far whose effect the state does not show (in the view)
          path
vars == <<subj, st, copied, ghost, path>>
View == <<subj, st, copied, ghost, Len(path)>>

Sh == subj.shape
DomOf(sh) == Take(DomSeq(sh), DomSize)
\* quantify over positions, never over a SET of values (variants may be incomparable in TLC)
DomIdx == 1..Len(DomOf(Sh))
DomAt(i) == DomOf(Sh)[i]
BatchIdx == 1..4
BatchAt(i) == <<<<>>, <<DomOf(Sh)[1]>>, Take(DomOf(Sh), 2), <<DomOf(Sh)[2], DomOf(Sh)[2], DomOf(Sh)[1]>>>>[i]

Empty == [ic |-> IC!ICInit(subj.ic), region |-> InitR(Sh)]

Init == /\ subj \in Subjects
        /\ st = [ic |-> IC!ICInit(subj.ic), region |-> InitR(subj.shape)]
        /\ copied = <<>>
        /\ ghost = <<>>
        /\ path = <<>>

\* FlatStack::copy: push into the region, remember the index
CopyInto(s, v) == LET r == PushR(Sh, s.region, v)
                  IN  [ic |-> IC!ICPush(s.ic, r.idx), region |-> r.st]
RECURSIVE CopyAll(_, _)
CopyAll(s, vs) == IF vs = <<>> THEN s ELSE CopyAll(CopyInto(s, Head(vs)), Tail(vs))

Copy(v) == /\ st' = CopyInto(st, v)
           /\ copied' = Append(copied, v)
           /\ path' = Append(path, [op |-> "copy", v |-> v])
           /\ UNCHANGED <<subj, ghost>>

\* Extend::extend == repeated copy, whatever the iterator's size hint promises (`hint` is an
\* ignored argument: "exact" = ExactSizeIterator, "none" = lower bound 0)
Extend(vs, hint) == /\ st' = CopyAll(st, vs)
                    /\ copied' = copied \o vs
                    /\ path' = Append(path, [op |-> "extend", vs |-> vs, hint |-> hint])
                    /\ UNCHANGED <<subj, ghost>>

\* FromIterator == with_capacity + extend, replacing the stack
FromIter(vs) == /\ st' = CopyAll(Empty, vs)
                /\ copied' = vs
                /\ path' = Append(path, [op |-> "from_iter", vs |-> vs])
                /\ UNCHANGED <<subj, ghost>>

\* clear; with_capacity(n); merge_capacity(stacks): an empty stack
Reset(o) == /\ st' = IF o = "clear"
                     THEN [ic |-> IC!ICClear(st.ic), region |-> ClearR(Sh, st.region)]
                     ELSE IF o = "merge_capacity"
                          THEN [ic |-> IC!ICInit(subj.ic), region |-> MergeR(Sh, <<st.region, st.region>>)]
                          ELSE Empty
            /\ copied' = <<>>
            /\ path' = Append(path, IF o = "with_capacity" THEN [op |-> o, n |-> 3] ELSE [op |-> o])
            /\ ghost' = Append(ghost, o)      \* the three ways to empty a stack are continued separately
            /\ UNCHANGED subj

\* reserve(n), reserve_regions, clone, clone_from, serde: nothing observable changes
Invisible(o) == /\ Len(ghost) < MaxGhost
                /\ ghost' = Append(ghost, o)
                /\ path' = Append(path, IF o = "reserve" THEN [op |-> o, n |-> 3] ELSE [op |-> o])
                /\ UNCHANGED <<subj, st, copied>>

\* FlatStack::reserve_items(items): an announcement to the region only (the index container is not told) - a
\* stuttering step for every announced batch, offered where the region implements ReserveItems (subj.ri)
ReserveItems(vs) == /\ subj.ri
                    /\ Len(ghost) < MaxGhost
                    /\ ghost' = Append(ghost, "reserve_items")
                    /\ path' = Append(path, [op |-> "reserve_items", vs |-> vs])
                    /\ UNCHANGED <<subj, st, copied>>

Next == /\ Len(path) < MaxOps
        /\ \/ "copy" \in Ops /\ \E vi \in DomIdx : Copy(DomAt(vi))
           \/ "extend" \in Ops /\ \E bi \in BatchIdx, hint \in {"exact", "none"} : Extend(BatchAt(bi), hint)
           \/ "from_iter" \in Ops /\ \E bi \in BatchIdx : FromIter(BatchAt(bi))
           \/ \E o \in {"clear", "with_capacity", "merge_capacity"} : o \in Ops /\ Reset(o)
           \/ \E o \in {"reserve", "reserve_regions", "clone", "clone_from", "serde"} : o \in Ops /\ Invisible(o)
           \/ "reserve_items" \in Ops /\ \E bi \in BatchIdx : ReserveItems(BatchAt(bi))

Spec == Init /\ [][Next]_vars

---------------------------------------------------------------------------
Len_(s)  == IC!ICLen(s.ic)
Items(s) == [i \in 1..Len_(s) |-> ReadR(Sh, s.region, IC!ICIndex(s.ic, i - 1))]
\* get(i): the i-th copied value, PANIC from len on
Get(s, i) == IF i < Len_(s) THEN Items(s)[i + 1] ELSE PANIC

\* C03: the stack IS the sequence of copied values
Denote == Items(st) = copied
LenOK  == Len_(st) = Len(copied)
GetOK  == \A i \in 0..(Len(copied) + 1) : Get(st, i) = (IF i < Len(copied) THEN copied[i + 1] ELSE PANIC)
RegionShaped == WellFormed(Sh, st.region)

\* C19: the optimised container over a dense-index region costs nothing
IndexBytes == IC!ICHeapUsed(st.ic, subj.isz)
IndexBytesZero == (subj.ic = "opt" /\ subj.dense) => IndexBytes = 0
\* and in general exactly the documented cost of the index sequence
IndexSeq == [i \in 1..Len_(st) |-> IC!ICIndex(st.ic, i - 1)]
IndexCost == subj.ic \in {"opt", "list"} => IndexBytes = IC!DocumentedCost(subj.ic, IndexSeq, subj.isz)

AppendOnly == [][path'[Len(path')].op \in {"copy", "extend", "reserve", "reserve_items", "reserve_regions"} =>
                    SubSeq(Items(st'), 1, Len(copied)) = Items(st)]_vars

EmitEdge ==
  Emit => PrintT(<<"EDGE", ToJson([subj |-> subj.name, path |-> path',
                                   dense_opt |-> (subj.ic = "opt" /\ subj.dense),
                                   obs |-> [len |-> Len_(st'), items |-> Items(st'),
                                            icused |-> IC!ICHeapUsed(st'.ic, subj.isz)]])>>)
=============================================================================
