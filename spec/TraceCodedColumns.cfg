SPECIFICATION Spec
INVARIANTS StatsWithinCode
CHECK_DEADLOCK FALSE
