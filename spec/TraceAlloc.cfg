SPECIFICATION Spec
INVARIANTS LedgerSane
CHECK_DEADLOCK FALSE
