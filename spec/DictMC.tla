------------------------------- MODULE DictMC -------------------------------
(***************************************************************************)
(* Bounded model of dictionary-coded regions: pushes, merges over any      *)
(* subset of the pool (every admissible ranking is a possible outcome),    *)
(* clears.  Decides C07 on the model and prints each history as a scenario *)
(* for the harness (the recorded trace is validated by TraceDict.tla).     *)
(***************************************************************************)
EXTENDS Dictionary, TLC, Json

CONSTANTS NSlots, MaxGen0, MaxMerge, MaxCoded, MaxClear, MaxReserve, StrSel, Emit

VARIABLES slots, path, ngen0, nmerge, ncoded, nclear, ghost
vars == <<slots, path, ngen0, nmerge, ncoded, nclear, ghost>>
\* ghost: the reservations taken (they change nothing the model tracks; TLC continues one path per view state,
\* so they are part of the view and histories go on after them)
View == <<slots, ngen0, nmerge, ncoded, nclear, ghost>>
SlotIds == 1..NSlots

\* byte strings chosen around the tag mechanism: tags are assigned from 0 upwards, so strings
\* starting with 0 / 1 collide with assigned tags unless a source saw such a string
Strs ==
  CASE StrSel = "quick"    -> {<<>>, <<0>>, <<97>>, <<97, 98>>, <<0, 97>>, <<1, 1>>, <<98>>}
    [] StrSel = "thorough" -> {<<>>, <<0>>, <<1>>, <<97>>, <<97, 98>>, <<0, 97>>, <<1, 1>>, <<98>>, <<98, 0>>, <<255>>, <<97, 98, 99>>}

Init == /\ slots = [s \in SlotIds |-> EmptySlot] /\ path = <<>>
        /\ ngen0 = 0 /\ nmerge = 0 /\ ncoded = 0 /\ nclear = 0 /\ ghost = <<>>

Push(s, str) ==
  /\ ~slots[s].poisoned
  /\ IF DOMAIN slots[s].dict = {}
     THEN ngen0 < MaxGen0 /\ ngen0' = ngen0 + 1 /\ UNCHANGED ncoded
     ELSE ncoded < MaxCoded /\ ncoded' = ncoded + 1 /\ UNCHANGED ngen0
  /\ slots' = [slots EXCEPT ![s] = DPush(@, str)]
  /\ path' = Append(path, [op |-> "push", s |-> s, v |-> str])
  /\ UNCHANGED <<nmerge, nclear, ghost>>

Merge(d, srcs, ranked) ==
  /\ nmerge < MaxMerge
  /\ \A i \in 1..Len(srcs) : ~slots[srcs[i]].poisoned
  /\ LET ss == [i \in 1..Len(srcs) |-> slots[srcs[i]]]
     IN  /\ IsRanking(ranked, MergedCounts(ss))
         /\ slots' = [slots EXCEPT ![d] = MergedSlot(DictFrom(ss, ranked))]
  /\ path' = Append(path, [op |-> "merge", d |-> d, srcs |-> srcs])
  /\ nmerge' = nmerge + 1
  /\ UNCHANGED <<ngen0, ncoded, nclear, ghost>>

Clear(s) ==
  /\ nclear < MaxClear
  /\ ~slots[s].poisoned
  /\ slots[s].issued # <<>> \/ DOMAIN slots[s].dict # {}
  /\ slots' = [slots EXCEPT ![s] = EmptySlot]
  /\ path' = Append(path, [op |-> "clear", s |-> s])
  /\ nclear' = nclear + 1
  /\ UNCHANGED <<ngen0, nmerge, ncoded, ghost>>

\* reserve_regions(sources): pre-sizing only.  The dictionary, the stored bytes and every issued item stay what
\* they are (C02 / C10 for dictionary-coded regions) - a stuttering step on everything the model tracks.
Reserve(s, srcs) ==
  /\ Len(ghost) < MaxReserve
  /\ ~slots[s].poisoned
  /\ DOMAIN slots[s].dict # {}          \* bounded model: the case that matters - a region that codes
  /\ \A i \in 1..Len(srcs) : ~slots[srcs[i]].poisoned /\ srcs[i] # s /\ slots[srcs[i]].issued # <<>>
  /\ path' = Append(path, [op |-> "reserve", s |-> s, srcs |-> srcs])
  /\ ghost' = Append(ghost, <<s, srcs>>)
  /\ UNCHANGED <<slots, ngen0, nmerge, ncoded, nclear>>

SrcLists == {<<>>} \cup {<<s>> : s \in SlotIds} \cup {[i \in 1..NSlots |-> i]}

\* all rankings of a small set of strings consistent with the counts
Rankings(counts) ==
  LET D == DOMAIN counts
      n == Cardinality(D)
  IN  {r \in [1..n -> D] : IsRanking(r, counts)}

Next ==
  \/ \E s \in SlotIds, str \in Strs : Push(s, str)
  \/ \E d \in SlotIds, srcs \in SrcLists :
       \E ranked \in Rankings(MergedCounts([i \in 1..Len(srcs) |-> slots[srcs[i]]])) : Merge(d, srcs, ranked)
  \/ \E s \in SlotIds : Clear(s)
  \/ \E s \in SlotIds, t \in SlotIds : Reserve(s, <<t>>)

Spec == Init /\ [][Next]_vars

---------------------------------------------------------------------------
\* C07: every accepted string reads back as exactly the pushed bytes
RoundTrip == \A s \in SlotIds : ~slots[s].poisoned =>
               \A i \in 1..Len(slots[s].issued) :
                 Decode(slots[s], slots[s].issued[i].b) = slots[s].issued[i].v

\* refusal exactly for inputs the dictionary cannot represent unambiguously
RefuseExact == \A s \in SlotIds : ~slots[s].poisoned =>
                 \A str \in Strs :
                   DPush(slots[s], str).poisoned <=>
                     (str # <<>> /\ str \notin Entries(slots[s]) /\ str[1] \in DOMAIN slots[s].dict)

\* without the refusal the same input WOULD be read back as different bytes (so refusing is necessary)
RefusalNecessary == \A s \in SlotIds : \A str \in Strs :
                      Ambiguous(slots[s], str) => Decode(slots[s], str) # str

\* entries are non-empty, distinct, and an entry's tag was never a first byte in the sources
DictSane == \A s \in SlotIds :
              /\ \A t \in DOMAIN slots[s].dict : slots[s].dict[t] # <<>>
              /\ \A t, u \in DOMAIN slots[s].dict : t # u => slots[s].dict[t] # slots[s].dict[u]

\* a coded string costs one byte
CodedCostsOne == \A s \in SlotIds : \A i \in 1..Len(slots[s].issued) :
                   InDict(slots[s], slots[s].issued[i].v) => Len(slots[s].issued[i].b) = 1

EmitScenario == Emit => PrintT(<<"SCN", ToJson([ops |-> path'])>>)
=============================================================================
