-------------------------- MODULE TraceCodedColumns --------------------------
(***************************************************************************)
(* Coded regions nested in a fan-out region: ColumnsRegion<HuffmanContainer>*)
(* (one Huffman container per column).  The monitor keeps, per slot and    *)
(* column, whether the column is raw or coded, which symbols its code      *)
(* covers, and the statistics it has gathered (as sets: code optimality is *)
(* C06's subject; here the contract of C10 / C08 is at stake):             *)
(*   merge_regions  creates max #columns; column j is coded for the union  *)
(*                  of the statistics of column j of EVERY source that has *)
(*                  such a column, whatever the order of the sources       *)
(*   push(row)      accepted iff every cell is encodable in its column     *)
(*                  (raw columns and columns created later accept all);    *)
(*                  an accepted row reads back exactly                     *)
(*   clear          every column back to raw, statistics forgotten         *)
(*   clone / clone_from   the copy IS the source (columns, codes,          *)
(*                  statistics, rows) and continues like it                *)
(* The object under test is the bare region or a FlatStack over it (copy / *)
(* get / merge_capacity / clear / clone / clone_from).  Rejections carry   *)
(* whether the slot had been cleared or copied (C08 / C09 act on those).   *)
(***************************************************************************)
EXTENDS Naturals, Sequences, FiniteSets, TLC, Json, IOUtils

Rec == ndJsonDeserialize(IOEnv.TRACE)

VARIABLES l, slots, skip, errs, cleared, copied
vars == <<l, slots, skip, errs, cleared, copied>>

SlotOf(e) == IF "s" \in DOMAIN e /\ e.ev # "cols_copy" THEN e.s ELSE IF "d" \in DOMAIN e THEN e.d ELSE 0
Err(e, why) == IF PrintT(<<"ERR", ToJson([line |-> l, run |-> e.run, why |-> why, afterclear |-> SlotOf(e) \in cleared,
                                          copied |-> SlotOf(e) \in copied])>>) THEN errs + 1 ELSE errs
RECURSIVE ErrAll(_, _, _)
ErrAll(e, whys, acc) == IF whys = <<>> THEN acc ELSE ErrAll(e, Tail(whys), Err(e, Head(whys)) - errs + acc)
Init == l = 1 /\ slots = <<>> /\ skip = FALSE /\ errs = 0 /\ cleared = {} /\ copied = {}

RawCol == [coded |-> FALSE, dom |-> {}, stats |-> {}]
Fresh == [cols |-> <<>>, dead |-> FALSE]
SymsOf(cell) == {cell[i] : i \in 1..Len(cell)}

Encodable(col, cell) == ~col.coded \/ SymsOf(cell) \subseteq col.dom
RowEncodable(sl, row) == \A j \in 1..Len(row) : j > Len(sl.cols) \/ Encodable(sl.cols[j], row[j])

Pushed(sl, row) ==
  LET n == IF Len(row) > Len(sl.cols) THEN Len(row) ELSE Len(sl.cols)
  IN  [sl EXCEPT !.cols = [j \in 1..n |->
         LET c == IF j <= Len(sl.cols) THEN sl.cols[j] ELSE RawCol
         IN  IF j <= Len(row) THEN [c EXCEPT !.stats = @ \cup SymsOf(row[j])] ELSE c]]

MaxCols(ss) == IF ss = <<>> THEN 0
               ELSE LET ls == {Len(ss[i].cols) : i \in 1..Len(ss)} IN CHOOSE m \in ls : \A x \in ls : x <= m
Merged(ss) ==
  [cols |-> [j \in 1..MaxCols(ss) |->
               [coded |-> TRUE,
                dom |-> UNION {ss[i].cols[j].stats : i \in {k \in 1..Len(ss) : Len(ss[k].cols) >= j}},
                stats |-> {}]],
   dead |-> FALSE]

Step(e) ==
  CASE e.ev = "reset" -> slots' = [s \in 1..e.nslots |-> Fresh] /\ skip' = FALSE /\ errs' = errs
    [] skip -> UNCHANGED <<slots, skip, errs>>
    [] e.ev = "cols_push" ->
         LET sl == slots[e.s]
             ok == RowEncodable(sl, e.v)
             \* every failing check is reported
             whys == IF e.panic THEN (IF ok THEN <<"push-into-merged-panicked">> ELSE <<>>)
                     ELSE (IF ~ok THEN <<"symbol-outside-statistics-was-stored">> ELSE <<>>) \o
                          (IF e.read_err # "" THEN <<"read-failed">> ELSE IF e.read # e.v THEN <<"read-differs">> ELSE <<>>) \o
                          (IF ~e.stable THEN <<"earlier-row-changed">> ELSE <<>>)
         IN  IF whys # <<>> THEN errs' = ErrAll(e, whys, errs) /\ skip' = TRUE /\ UNCHANGED slots
             ELSE IF e.panic THEN slots' = [slots EXCEPT ![e.s].dead = TRUE] /\ UNCHANGED <<skip, errs>>
             ELSE slots' = [slots EXCEPT ![e.s] = Pushed(sl, e.v)] /\ UNCHANGED <<skip, errs>>
    [] e.ev = "cols_merge" ->
         IF e.panic THEN errs' = Err(e, "merge-panicked") /\ skip' = TRUE /\ UNCHANGED slots
         ELSE slots' = [slots EXCEPT ![e.d] = Merged([i \in 1..Len(e.srcs) |-> slots[e.srcs[i]]])] /\ UNCHANGED <<skip, errs>>
    [] e.ev = "cols_copy" ->
         IF e.panic THEN errs' = Err(e, "copy-panicked") /\ skip' = TRUE /\ UNCHANGED slots
         ELSE IF ~e.same THEN errs' = Err(e, "copy-reads-differently") /\ skip' = TRUE /\ UNCHANGED slots
         ELSE slots' = [slots EXCEPT ![e.d] = slots[e.s]] /\ UNCHANGED <<skip, errs>>
    [] e.ev = "cols_clear" ->
         IF e.panic THEN errs' = Err(e, "clear-panicked") /\ skip' = TRUE /\ UNCHANGED slots
         ELSE slots' = [slots EXCEPT ![e.s].cols = [j \in 1..Len(@) |-> RawCol]] /\ UNCHANGED <<skip, errs>>

Next == /\ l <= Len(Rec)
        /\ l' = l + 1
        /\ Step(Rec[l])
        /\ cleared' = IF Rec[l].ev = "reset" THEN {}
                      ELSE IF Rec[l].ev = "cols_clear" THEN cleared \cup {Rec[l].s}
                      ELSE IF Rec[l].ev \in {"cols_merge", "cols_copy"} THEN cleared \ {Rec[l].d}
                      ELSE cleared
        /\ copied' = IF Rec[l].ev = "reset" THEN {}
                     ELSE IF Rec[l].ev = "cols_copy" THEN copied \cup {Rec[l].d}
                     ELSE IF Rec[l].ev = "cols_merge" THEN copied \ {Rec[l].d}
                     ELSE copied
        /\ (l = Len(Rec)) => PrintT(<<"DONE", l, errs'>>)
Spec == Init /\ [][Next]_vars

\* a coded column never gathers statistics outside what it can encode
StatsWithinCode == \A s \in DOMAIN slots : \A j \in 1..Len(slots[s].cols) :
                     slots[s].cols[j].coded => slots[s].cols[j].stats \subseteq slots[s].cols[j].dom
=============================================================================
