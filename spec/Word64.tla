------------------------------- MODULE Word64 -------------------------------
(***************************************************************************)
(* Exact 64-bit naturals for TLC, whose integers are 32-bit Java ints.     *)
(* A word is a 4-tuple of 16-bit limbs, least significant limb first.      *)
(* Multiplication by a small natural returns the distinguished value OVF   *)
(* when the mathematical product does not fit in 64 bits, so "the product  *)
(* over the naturals equals no usize" is expressible (IndexContainers).    *)
(***************************************************************************)
EXTENDS Naturals, Sequences

B == 65536

WZero == <<0, 0, 0, 0>>
OVF   == <<0, 0, 0, 0, 1>>     \* five limbs: never equal to a word

IsWord(w) == /\ Len(w) = 4
             /\ \A i \in 1..4 : w[i] \in 0..(B - 1)

\* small n (< 2^31) as a word
W(n) == <<n % B, (n \div B) % B, 0, 0>>

WFitsU32(w) == w[3] = 0 /\ w[4] = 0

\* k < 2^15 so that limb * k + carry stays below 2^31
WMulSmall(w, k) ==
  IF w = OVF THEN OVF ELSE
  LET p1 == w[1] * k
      p2 == w[2] * k + (p1 \div B)
      p3 == w[3] * k + (p2 \div B)
      p4 == w[4] * k + (p3 \div B)
  IN  IF p4 \div B # 0 THEN OVF
      ELSE <<p1 % B, p2 % B, p3 % B, p4 % B>>

WLt(a, b) ==
  \/ a[4] < b[4]
  \/ a[4] = b[4] /\ a[3] < b[3]
  \/ a[4] = b[4] /\ a[3] = b[3] /\ a[2] < b[2]
  \/ a[4] = b[4] /\ a[3] = b[3] /\ a[2] = b[2] /\ a[1] < b[1]

\* Named constants of the transition-covering alphabet (C05)
U32MAX     == <<65535, 65535, 0, 0>>
U32MAXP1   == <<0, 0, 1, 0>>
TWO63      == <<0, 0, 0, 32768>>
USIZEMAXM1 == <<65534, 65535, 65535, 65535>>
USIZEMAX   == <<65535, 65535, 65535, 65535>>

\* Self-test of the limb arithmetic, evaluated by TLC at start-up.
ASSUME /\ WMulSmall(W(3), 5) = W(15)
       /\ WMulSmall(U32MAX, 2) = <<65534, 65535, 1, 0>>
       /\ WMulSmall(TWO63, 2) = OVF
       /\ WMulSmall(TWO63, 1) = TWO63
       /\ WMulSmall(USIZEMAX, 1) = USIZEMAX
       /\ WMulSmall(USIZEMAX, 2) = OVF
       /\ WMulSmall(USIZEMAX, 0) = WZero
       /\ WMulSmall(U32MAXP1, 32767) = <<0, 0, 32767, 0>>
       /\ WFitsU32(U32MAX) /\ ~WFitsU32(U32MAXP1)
       /\ OVF # USIZEMAX /\ OVF # WZero
       /\ WLt(U32MAX, U32MAXP1) /\ ~WLt(USIZEMAX, USIZEMAXM1)
=============================================================================
