------------------------------- MODULE TraceMG -------------------------------
(***************************************************************************)
(* Binds MisraGries.tla to the code: each recorded run gives the capacity, *)
(* the inserted elements (with multiplicities) and the summary returned by *)
(* `done()`.  The monitor recomputes the true counts and requires the      *)
(* guarantees proved on the bounded model: no over-estimate, bounded loss, *)
(* a dominant element reported first, at most capacity/2.. entries - not   *)
(* the exact list (tie order is not part of the contract).                 *)
(***************************************************************************)
EXTENDS Naturals, Sequences, FiniteSets, TLC, Json, IOUtils

Rec == ndJsonDeserialize(IOEnv.TRACE)

VARIABLES l, errs
vars == <<l, errs>>
Init == l = 1 /\ errs = 0

Err(e, why) == IF PrintT(<<"ERR", ToJson([line |-> l, run |-> e.run, why |-> why])>>) THEN errs + 1 ELSE errs

\* e.counts: the inserted multiset aggregated per element, <<element, total>>; e.updates: number of
\* update calls; e.done: the summary as <<element, estimate>>
Lookup(pairs, x) == LET idx == {i \in 1..Len(pairs) : pairs[i][1] = x}
                    IN  IF idx = {} THEN 0 ELSE pairs[CHOOSE i \in idx : TRUE][2]
RECURSIVE Total(_)
Total(pairs) == IF pairs = <<>> THEN 0 ELSE Head(pairs)[2] + Total(Tail(pairs))

Verdict(e) ==
  LET K == e.cap \div 2
      n == Total(e.counts)
      loss == (n \div (K + 1)) + (e.updates \div K)
  IN  IF e.panic THEN "summary-panicked"
      ELSE IF \E i, j \in 1..Len(e.done) : i # j /\ e.done[i][1] = e.done[j][1] THEN "duplicate-entry"
      ELSE IF \E i \in 1..(Len(e.done) - 1) : e.done[i][2] < e.done[i + 1][2] THEN "not-sorted-by-count"
      ELSE IF \E j \in 1..Len(e.done) : e.done[j][2] > Lookup(e.counts, e.done[j][1]) THEN "over-estimate"
      ELSE IF \E i \in 1..Len(e.counts) : e.counts[i][2] - Lookup(e.done, e.counts[i][1]) > loss THEN "loss-exceeds-bound"
      ELSE IF \E i \in 1..Len(e.counts) : 2 * e.counts[i][2] > n + loss /\ (e.done = <<>> \/ e.done[1][1] # e.counts[i][1])
           THEN "dominant-not-first"
      ELSE IF Len(e.done) >= e.cap THEN "summary-exceeds-capacity"
      ELSE "ok"

Next == /\ l <= Len(Rec)
        /\ l' = l + 1
        /\ LET v == Verdict(Rec[l]) IN errs' = IF v = "ok" THEN errs ELSE Err(Rec[l], v)
        /\ (l = Len(Rec)) => PrintT(<<"DONE", l, errs'>>)

Spec == Init /\ [][Next]_vars
Sane == errs >= 0
=============================================================================
