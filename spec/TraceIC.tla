------------------------------- MODULE TraceIC -------------------------------
(***************************************************************************)
(* Trace validation of LONG histories of one index container of            *)
(* src/impls/index.rs (Vec<usize>, Stride, IndexList, IndexOptimized)      *)
(* against IndexContainers.tla over exact 64-bit words.                    *)
(*                                                                         *)
(* ICMC decides C05 / C19 exhaustively for short histories over a          *)
(* transition-covering alphabet; this monitor carries the SAME state       *)
(* machine through recorded walks of thousands of pushes (long strides,    *)
(* saturation, overflow of stride * count deep into a run, the u32 -> u64  *)
(* switch after many entries, clears, copies, reservations), checking at   *)
(* every event what the code answered: len, is_empty, the heap bytes       *)
(* (= documented cost), the last element, probes of arbitrary earlier      *)
(* positions, windows of the iterator, Stride's accept/reject decision.    *)
(*                                                                         *)
(* Deterministic monitor: every failing check of an event is printed as    *)
(* an ERR line, the rest of that run is skipped, DONE closes the trace.    *)
(***************************************************************************)
EXTENDS Naturals, Sequences, TLC, Json, IOUtils, Word64

IC == INSTANCE IndexContainers WITH Zero <- WZero, Mul <- WMulSmall, Fits32 <- WFitsU32

Rec == ndJsonDeserialize(IOEnv.TRACE)

VARIABLES l, kind, ic, n, skip, errs, cleared, copied
vars == <<l, kind, ic, n, skip, errs, cleared, copied>>

Err(e, why) == IF PrintT(<<"ERR", ToJson([line |-> l, run |-> e.run, why |-> why, kind |-> kind,
                                          afterclear |-> cleared, copied |-> copied])>>) THEN errs + 1 ELSE errs
RECURSIVE ErrAll(_, _, _)
ErrAll(e, whys, acc) == IF whys = <<>> THEN acc ELSE ErrAll(e, Tail(whys), Err(e, Head(whys)) - errs + acc)

InitOf(k) == IF k = "stride" THEN IC!StrideInit ELSE IC!ICInit(k)
Init == l = 1 /\ kind = "vec" /\ ic = InitOf("vec") /\ n = 0 /\ skip = FALSE /\ errs = 0 /\ cleared = FALSE /\ copied = FALSE

Length(c) == IF kind = "stride" THEN IC!StrideLen(c) ELSE IC!ICLen(c)
Used(c) == IF kind = "stride" THEN 0 ELSE IC!ICHeapUsed(c, 8)
At(c, i) == IF kind = "stride" THEN IC!StrideIndex(c, i) ELSE IC!ICIndexAt(c, i)

\* the monitor multiplies a stride by its count with WMulSmall, exact for counts below 2^15
WithinMonitorLimits(c) ==
  IF kind = "stride" THEN c.c < 32000 ELSE IF kind = "opt" THEN c.st.c < 32000 ELSE TRUE

If(b, why) == IF b THEN <<why>> ELSE <<>>

\* observation checks shared by push / clear / copy / reserve
ObsWhys(e, c) ==
  If(e.len # Length(c), "len-differs") \o
  If(e.empty # (Length(c) = 0), "is-empty-differs") \o
  If(kind # "stride" /\ e.used # Used(c), "heap-bytes-differ-from-documented-cost")

RECURSIVE WindowBad(_, _, _)
WindowBad(c, from, vs) ==
  IF vs = <<>> THEN FALSE
  ELSE Head(vs) # At(c, from) \/ WindowBad(c, from + 1, Tail(vs))

Step(e) ==
  CASE e.ev = "reset" ->
         /\ kind' = e.kind /\ ic' = InitOf(e.kind) /\ n' = 0
         /\ skip' = FALSE /\ errs' = errs /\ cleared' = FALSE /\ copied' = FALSE
    [] skip -> UNCHANGED <<kind, ic, n, skip, errs, cleared, copied>>
    [] e.ev = "push" ->
         IF e.panic THEN /\ errs' = Err(e, "push-panicked") /\ skip' = TRUE
                         /\ UNCHANGED <<kind, ic, n, cleared, copied>>
         ELSE
         LET r == IF kind = "stride" THEN IC!StridePush(ic, e.x) ELSE [ok |-> TRUE, st |-> IC!ICPush(ic, e.x)]
             c == r.st
             whys == If(~WithinMonitorLimits(c), "TOOL-monitor-limit") \o
                     If(kind = "stride" /\ e.ok # r.ok, "stride-accepts-differently") \o
                     If(kind = "stride" /\ ~r.ok /\ ~e.untouched, "stride-changed-by-rejected-push") \o
                     (IF e.obs THEN ObsWhys(e, c) \o
                                    If(r.ok /\ e.len = Length(c) /\ e.len > 0 /\ e.last # At(c, Length(c) - 1), "last-element-differs")
                      ELSE <<>>)
         IN  IF whys = <<>>
             THEN ic' = c /\ n' = Length(c) /\ UNCHANGED <<kind, skip, errs, cleared, copied>>
             ELSE errs' = ErrAll(e, whys, errs) /\ skip' = TRUE /\ UNCHANGED <<kind, ic, n, cleared, copied>>
    [] e.ev = "probe" ->
         LET whys == IF e.panic THEN <<"index-panicked">>
                     ELSE If(e.i < n /\ e.v # At(ic, e.i), "index-differs")
         IN  IF whys = <<>> THEN UNCHANGED <<kind, ic, n, skip, errs, cleared, copied>>
             ELSE errs' = ErrAll(e, whys, errs) /\ skip' = TRUE /\ UNCHANGED <<kind, ic, n, cleared, copied>>
    [] e.ev = "iter" ->
         \* a window of the iterator starting at position `from` (reached by next / nth / skip / a clone)
         LET whys == IF e.panic THEN <<"iteration-panicked">>
                     ELSE If(e.from + Len(e.vs) > n, "iterator-yields-beyond-len") \o
                          If(e.from + Len(e.vs) <= n /\ WindowBad(ic, e.from, e.vs), "iteration-differs") \o
                          If(e.complete /\ e.from + Len(e.vs) # n, "iterator-ends-early")
         IN  IF whys = <<>> THEN UNCHANGED <<kind, ic, n, skip, errs, cleared, copied>>
             ELSE errs' = ErrAll(e, whys, errs) /\ skip' = TRUE /\ UNCHANGED <<kind, ic, n, cleared, copied>>
    [] e.ev = "clear" ->
         LET c == InitOf(kind)
             whys == IF e.panic THEN <<"clear-panicked">> ELSE ObsWhys(e, c)
         IN  IF whys = <<>>
             THEN \* clear keeps the allocations (C18): reported, without ending the run
                  /\ errs' = IF e.cap_after < e.cap_before THEN Err(e, "capacity-shrank-on-clear") ELSE errs
                  /\ ic' = c /\ n' = 0 /\ cleared' = TRUE /\ UNCHANGED <<kind, skip, copied>>
             ELSE errs' = ErrAll(e, whys, errs) /\ skip' = TRUE /\ UNCHANGED <<kind, ic, n, cleared, copied>>
    [] e.ev \in {"copy", "reserve"} ->
         \* the object under test was replaced by its clone / clone_from into a dirty target / serde copy, or
         \* asked to reserve: nothing it denotes may change, and it must continue like the model
         LET whys == IF e.panic THEN <<IF e.ev = "copy" THEN "copy-failed" ELSE "reserve-panicked">> ELSE ObsWhys(e, ic)
         IN  IF whys = <<>>
             THEN copied' = (copied \/ e.ev = "copy") /\ UNCHANGED <<kind, ic, n, skip, errs, cleared>>
             ELSE errs' = ErrAll(e, whys, errs) /\ skip' = TRUE /\ UNCHANGED <<kind, ic, n, cleared, copied>>

Next == /\ l <= Len(Rec)
        /\ l' = l + 1
        /\ Step(Rec[l])
        /\ (l = Len(Rec)) => PrintT(<<"DONE", l, errs'>>)

Spec == Init /\ [][Next]_vars

\* the monitor's own state stays an implementation-shaped container of the logged kind
Shaped == n = Length(ic)
=============================================================================
