SPECIFICATION Spec
CONSTANTS
  SubjectNames = {"string", "slice_str", "collapse_str", "cip_str_opt", "cols_str", "opt_res", "tuple3", "slice_collapse_cip_str", "owned_f64", "mirror_f64"}
  NSlots = 1
  MaxOps = 3
  MaxGhost = 0
  DomSize = 3
  Ops = {"push", "clear"}
  Queries = {}
  EquivDepth = 1
  Emit = TRUE
  U32Limit = 2147483647
VIEW View
ACTION_CONSTRAINT EmitEdge
INVARIANTS RoundTrip Shaped Dense StringsValid ClearFresh MergeFresh CollapseExact GetExact CloneOntoLaw
PROPERTIES AppendOnly UsedMonotone
CHECK_DEADLOCK FALSE
