SPECIFICATION Spec
INVARIANTS Tiling CodeSane
CHECK_DEADLOCK FALSE
