--------------------------- MODULE RegionContract ---------------------------
(***************************************************************************)
(* Level A: what a region IS, independent of any layout.                   *)
(*                                                                         *)
(* A region is an append-only store.  Its abstract state is the sequence   *)
(* `issued` of (index, value) pairs returned by push since creation,       *)
(* merge_regions or the last clear.  The listed properties are stated here *)
(* once; the implementation-shaped model (Regions.tla / RegionsMC.tla) is  *)
(* checked to satisfy them, and recorded executions of the real code are   *)
(* validated against them (TraceContract.tla).                             *)
(***************************************************************************)
EXTENDS Naturals, Sequences

VARIABLES issued      \* Seq([idx, v])

Init == issued = <<>>

\* push(v) returns some index idx; from then on Read(idx) = v            (C01)
Push(v, idx) == issued' = Append(issued, [idx |-> idx, v |-> v])
\* clear forgets everything; indices issued before are void               (C08)
Clear == issued' = <<>>
\* reserve_items / reserve_regions / with_capacity: nothing observable    (C10)
Reserve == UNCHANGED issued

Read(i) == issued[i].v

\* C02: no action other than Clear changes what an issued index reads
AppendOnly == [][issued' = <<>> \/ (Len(issued') >= Len(issued) /\ SubSeq(issued', 1, Len(issued)) = issued)]_issued

\* C12: regions with dense indices issue 0, 1, 2, ...
Dense == \A i \in 1..Len(issued) : issued[i].idx = i - 1
=============================================================================
