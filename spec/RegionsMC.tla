------------------------------ MODULE RegionsMC ------------------------------
(***************************************************************************)
(* State machine over a small POOL of region instances of one catalogued   *)
(* composition.  One action per public call.  The subject (shape, input    *)
(* forms, capabilities) is read from catalogue.json, which the Rust        *)
(* harness generates from its typed catalogue; the same names select the   *)
(* concrete Rust type when an edge is replayed.                            *)
(*                                                                         *)
(* Each slot carries its Level-B state `st` and the Level-A record of the  *)
(* contract, `issued`: the (index, value) pairs returned since the last    *)
(* clear.  The listed properties are invariants / action properties below; *)
(* the EDGE lines bind the same transitions to the implementation.         *)
(***************************************************************************)
EXTENDS Naturals, Sequences, FiniteSets, TLC, Json, Utf8, Domains

CONSTANTS SubjectNames,  \* names of catalogue entries to explore
          NSlots,        \* size of the slot pool
          MaxOps,        \* bound on history length
          MaxGhost,      \* bound on content-invisible operations per history (their kinds are kept
                         \* in `ghost`, which is part of the view: BFS extends only ONE path per
                         \* view state, so what must be continued separately must be in the view)
          DomSize,       \* how many values of the per-shape domain are used
          Ops,           \* enabled state-changing operations
          Queries,       \* enabled read-only operations (self-loops)
          EquivDepth,    \* look-ahead of the freshness / equivalence invariants
          Emit,          \* print one EDGE line per transition
          U32Limit

INSTANCE Regions

Catalogue == JsonDeserialize("catalogue.json")
Subjects  == {Catalogue[i] : i \in {j \in 1..Len(Catalogue) : Catalogue[j].name \in SubjectNames}}

VARIABLES subj, slots, ghost, path, res
vars == <<subj, slots, ghost, path, res>>
View == <<subj, slots, ghost, Len(path)>>

Sh == subj.shape

---------------------------------------------------------------------------
DomOf(sh) == Take(DomSeq(sh), DomSize)
\* Values of different variants may not be comparable in TLC (a string against a number), so the
\* domain is never turned into a SET: quantification is over positions of the domain sequence.
DomIdx == 1..Len(DomOf(Sh))
DomAt(i) == DomOf(Sh)[i]
BatchIdx == 1..3
BatchAt(i) == <<<<>>, <<DomOf(Sh)[1]>>, Take(DomOf(Sh), 2)>>[i]

SlotIds == 1..NSlots
\* source lists for merge / reserve_regions: none, one, or all slots
SrcLists == {<<>>} \cup {<<s>> : s \in SlotIds} \cup {[i \in 1..NSlots |-> i]}

---------------------------------------------------------------------------
FreshSlot == [st |-> InitR(Sh), issued |-> <<>>]

Init == /\ subj \in Subjects
        /\ slots = [s \in SlotIds |-> [st |-> InitR(subj.shape), issued |-> <<>>]]
        /\ ghost = <<>>
        /\ path = <<>>
        /\ res = [ok |-> TRUE]

DoPush(s, v, rec) ==
  LET r == PushR(Sh, slots[s].st, v)
  IN  /\ slots' = [slots EXCEPT ![s] = [st |-> r.st, issued |-> Append(@.issued, [idx |-> r.idx, v |-> v])]]
      /\ path' = Append(path, rec)
      /\ res' = [idx |-> r.idx, dused |-> UsedR(Sh, r.st) - UsedR(Sh, slots[s].st),
                  \* what this push adds to the C18 lower bound: every branch it stored into has to contribute
                  dlb |-> PayloadR(Sh, r.st) - PayloadR(Sh, slots[s].st)]
      /\ UNCHANGED <<subj, ghost>>

Push(s, f, v) == DoPush(s, v, [op |-> "push", s |-> s, f |-> f - 1, v |-> v])

\* push a read item of one region into another (or the same) region
PushFrom(d, s, i, rep) ==
  /\ subj.caps.push_item
  /\ i \in 1..Len(slots[s].issued)
  /\ DoPush(d, slots[s].issued[i].v, [op |-> "push_from", d |-> d, s |-> s, i |-> i - 1, rep |-> rep])

Clear(s) ==
  /\ slots' = [slots EXCEPT ![s] = [st |-> ClearR(Sh, @.st), issued |-> <<>>]]
  /\ path' = Append(path, [op |-> "clear", s |-> s])
  /\ res' = [ok |-> TRUE]
  /\ UNCHANGED <<subj, ghost>>

\* clone, clone_from (into whatever d holds), serde round trip: d becomes a copy of s
Copy(o, d, s) ==
  /\ d # s
  /\ o \in {"clone", "clone_from"} => subj.caps.clone
  /\ o = "serde" => subj.caps.serde
  /\ Len(ghost) < MaxGhost
  /\ slots' = [slots EXCEPT ![d] = slots[s]]
  /\ path' = Append(path, [op |-> o, d |-> d, s |-> s])
  /\ ghost' = Append(ghost, <<o>>)
  /\ res' = [ok |-> TRUE]
  /\ UNCHANGED subj

Merge(d, srcs) ==
  /\ Len(ghost) < MaxGhost
  /\ slots' = [slots EXCEPT ![d] = [st |-> MergeR(Sh, [i \in 1..Len(srcs) |-> slots[srcs[i]].st]),
                                    issued |-> <<>>]]
  /\ path' = Append(path, [op |-> "merge", d |-> d, srcs |-> srcs])
  /\ ghost' = Append(ghost, <<"merge", srcs>>)
  /\ res' = [ok |-> TRUE]
  /\ UNCHANGED subj

\* pre-sizing: invisible on contents (C10); only the capacity ledger of Alloc.tla changes
ReserveRegions(s, srcs) ==
  /\ subj.caps.reserve_regions
  /\ Len(ghost) < MaxGhost
  /\ path' = Append(path, [op |-> "reserve_regions", s |-> s, srcs |-> srcs])
  /\ ghost' = Append(ghost, <<"reserve_regions", s>>)
  /\ res' = [ok |-> TRUE]
  /\ UNCHANGED <<subj, slots>>

ReserveItems(s, f, vs) ==
  /\ f \in 1..Len(subj.reserve_forms)
  /\ Len(ghost) < MaxGhost
  /\ path' = Append(path, [op |-> "reserve_items", s |-> s, f |-> f - 1, vs |-> vs])
  /\ ghost' = Append(ghost, <<"reserve_items", s>>)
  /\ res' = [ok |-> TRUE]
  /\ UNCHANGED <<subj, slots>>

---------------------------------------------------------------------------
(* Read-only operations.  They are self-loops of the state graph; TLC      *)
(* still evaluates the action constraint for them, so each one becomes a   *)
(* replayable test.                                                        *)
Query(rec, answer) ==
  /\ path' = Append(path, rec)
  /\ res' = [v |-> answer]
  /\ UNCHANGED <<subj, slots, ghost>>

IsSeqShape == Sh.k \in {"slice", "columns"}

Get(s, i, pos, rep) ==
  /\ IsSeqShape /\ subj.caps.get
  /\ i \in 1..Len(slots[s].issued)
  /\ pos \in 0..(Len(slots[s].issued[i].v) + 2)
  /\ Query([op |-> "get", s |-> s, i |-> i - 1, pos |-> pos, rep |-> rep],
           ItemGet(slots[s].issued[i].v, pos))

CloneOntoQ(s, i, t) ==
  /\ i \in 1..Len(slots[s].issued)
  /\ Query([op |-> "clone_onto", s |-> s, i |-> i - 1, t |-> t],
           CloneOnto(Sh, slots[s].issued[i].v, t))

BorrowQ(s, i) ==
  /\ i \in 1..Len(slots[s].issued)
  /\ Query([op |-> "borrow", s |-> s, i |-> i - 1], slots[s].issued[i].v)

\* ==, partial_cmp, cmp between two read items: region-backed both, or the second one borrowed
\* from its owned form (rep = "owned")
CmpQ(s, i, s2, i2, rep) ==
  /\ subj.caps.cmp
  /\ i \in 1..Len(slots[s].issued) /\ i2 \in 1..Len(slots[s2].issued)
  /\ Query([op |-> "cmp", s |-> s, i |-> i - 1, s2 |-> s2, i2 |-> i2 - 1, rep |-> rep],
           CmpAnswer(Sh, slots[s].issued[i].v, slots[s2].issued[i2].v))

Enabled(o) == o \in Ops
EnabledQ(q) == q \in Queries

Next ==
  /\ Len(path) < MaxOps
  /\ \/ Enabled("push") /\ \E s \in SlotIds, f \in 1..Len(subj.forms), vi \in DomIdx : Push(s, f, DomAt(vi))
     \/ Enabled("push_from") /\ \E d \in SlotIds, s \in SlotIds, i \in 1..MaxOps, rep \in {"region", "owned"} :
                                   PushFrom(d, s, i, rep)
     \/ Enabled("clear") /\ \E s \in SlotIds : Clear(s)
     \/ \E o \in {"clone", "clone_from", "serde"} :
          Enabled(o) /\ \E d \in SlotIds, s \in SlotIds : Copy(o, d, s)
     \/ Enabled("merge") /\ \E d \in SlotIds, srcs \in SrcLists : Merge(d, srcs)
     \/ Enabled("reserve_regions") /\ \E s \in SlotIds, srcs \in SrcLists : ReserveRegions(s, srcs)
     \/ Enabled("reserve_items") /\ \E s \in SlotIds, f \in 1..3, bi \in BatchIdx : ReserveItems(s, f, BatchAt(bi))
     \/ EnabledQ("get") /\ \E s \in SlotIds, i \in 1..MaxOps, pos \in 0..5, rep \in {"region", "owned"} :
                              Get(s, i, pos, rep)
     \/ EnabledQ("clone_onto") /\ \E s \in SlotIds, i \in 1..MaxOps, ti \in DomIdx : CloneOntoQ(s, i, DomAt(ti))
     \/ EnabledQ("borrow") /\ \E s \in SlotIds, i \in 1..MaxOps : BorrowQ(s, i)
     \/ EnabledQ("cmp") /\ \E s \in SlotIds, s2 \in SlotIds, i \in 1..MaxOps, i2 \in 1..MaxOps, rep \in {"region", "owned"} :
                              CmpQ(s, i, s2, i2, rep)

Spec == Init /\ [][Next]_vars

---------------------------------------------------------------------------
(* Properties on the model                                                 *)

Reads(sl) == [i \in 1..Len(sl.issued) |-> ReadR(Sh, sl.st, sl.issued[i].idx)]
Vals(sl)  == [i \in 1..Len(sl.issued) |-> sl.issued[i].v]

\* C01: the item read at a pushed index is the pushed value
RoundTrip == \A s \in SlotIds : Reads(slots[s]) = Vals(slots[s])

\* C02: a push or a reservation leaves every earlier read of its target unchanged.
\* (Stated over the last operation rather than over "issued' extends issued": values of different
\* variants are not comparable in TLC, and the operation is what the property is about.)
LastOp == path'[Len(path')]
AppendOnly ==
  [][LastOp.op \in {"push", "push_from", "reserve_items", "reserve_regions"} =>
       LET t == IF LastOp.op = "push_from" THEN LastOp.d ELSE LastOp.s
       IN  \A i \in 1..Len(slots[t].issued) :
             ReadR(Sh, slots'[t].st, slots[t].issued[i].idx) = ReadR(Sh, slots[t].st, slots[t].issued[i].idx)]_vars

\* structure of every Level-B state
Shaped == \A s \in SlotIds : WellFormed(Sh, slots[s].st)

\* C12: consecutive-pair and columns regions issue 0, 1, 2, ...
Dense == Sh.k \in {"cip", "columns"} =>
           \A s \in SlotIds : \A i \in 1..Len(slots[s].issued) : slots[s].issued[i].idx = i - 1

\* C04: every string inside every read is valid UTF-8 and was pushed into that slot
RECURSIVE Strings(_, _)
Strings(sh, v) ==
  CASE sh.k = "string" -> {v}
    [] sh.k = "vecreg" -> IF sh.t = "string" THEN {v} ELSE {}
    [] sh.k = "option" -> IF v.t = "some" THEN Strings(sh.inner, v.v) ELSE {}
    [] sh.k = "result" -> Strings(IF v.t = "ok" THEN sh.ok ELSE sh.err, v.v)
    [] sh.k = "tuple"  -> UNION {Strings(sh.fs[i], v[i]) : i \in 1..Len(sh.fs)}
    [] sh.k \in {"slice", "columns"} -> UNION {Strings(sh.inner, v[i]) : i \in 1..Len(v)}
    [] sh.k \in {"collapse", "cip"} -> Strings(sh.inner, v)
    [] OTHER -> {}
StringsValid ==
  \A s \in SlotIds :
    LET pushed == UNION {Strings(Sh, slots[s].issued[i].v) : i \in 1..Len(slots[s].issued)}
    IN  \A i \in 1..Len(slots[s].issued) :
          \A str \in Strings(Sh, ReadR(Sh, slots[s].st, slots[s].issued[i].idx)) :
            ValidUtf8(str) /\ str \in pushed

\* C08 / C10: observational equivalence of two states, looking EquivDepth pushes ahead
RECURSIVE ObsEquiv(_, _, _)
ObsEquiv(a, b, k) ==
  k = 0 \/ \A vi \in DomIdx :
             LET v  == DomAt(vi)
                 ra == PushR(Sh, a, v)
                 rb == PushR(Sh, b, v)
             IN  /\ ra.idx = rb.idx
                 /\ ReadR(Sh, ra.st, ra.idx) = ReadR(Sh, rb.st, rb.idx)
                 /\ ObsEquiv(ra.st, rb.st, k - 1)
ClearFresh == \A s \in SlotIds : ObsEquiv(ClearR(Sh, slots[s].st), InitR(Sh), EquivDepth)
MergeFresh == \A srcs \in SrcLists :
                ObsEquiv(MergeR(Sh, [i \in 1..Len(srcs) |-> slots[srcs[i]].st]), InitR(Sh), EquivDepth)

\* C11: a top-level collapsing region returns the previous index exactly for an equal neighbour
CollapseExact ==
  Sh.k = "collapse" =>
    \A s \in SlotIds : \A vi \in DomIdx :
      LET v    == DomAt(vi)
          sl   == slots[s]
          r    == PushR(Sh, sl.st, v)
          n    == Len(sl.issued)
          same == n > 0 /\ Equal(Sh, v, sl.issued[n].v)
      IN  /\ same => r.idx = sl.issued[n].idx /\ r.st = sl.st
          /\ ~same => /\ ReadR(Sh, r.st, r.idx) = v
                      /\ UsedR(Sh, r.st) >= UsedR(Sh, sl.st)
                      /\ r.st.last = Some(r.idx)

\* C13: the region-backed positional accessor returns the i-th element of its own item,
\* and is out of bounds (PANIC) from len on; never a neighbour's element
GetB(sl, i, pos) ==
  LET idx == sl.issued[i].idx
  IN  IF Sh.k = "slice"
      THEN IF pos < idx[2] - idx[1]
           THEN ReadR(Sh.inner, sl.st.inner, IC!ICIndex(sl.st.slices, idx[1] + pos))
           ELSE PANIC
      ELSE LET row == ReadR(RowsShape(Sh), sl.st.rows, idx)
           IN  IF pos < Len(row) THEN ReadR(Sh.inner, sl.st.cols[pos + 1], row[pos + 1]) ELSE PANIC
GetExact ==
  IsSeqShape =>
    \A s \in SlotIds : \A i \in 1..Len(slots[s].issued) :
      \A pos \in 0..(Len(slots[s].issued[i].v) + 2) :
        GetB(slots[s], i, pos) = ItemGet(slots[s].issued[i].v, pos)

\* C14: clone_onto(x, t) leaves t equal to x whatever t held before
CloneOntoLaw == \A s \in SlotIds : \A i \in 1..Len(slots[s].issued) : \A ti \in DomIdx :
                  CloneOnto(Sh, slots[s].issued[i].v, DomAt(ti)) = slots[s].issued[i].v

\* C17 (the rule): what each pre-sizing call reserves is enough for exactly the announced contents
IssuedVals(sl) == [i \in 1..Len(sl.issued) |-> sl.issued[i].v]
RECURSIVE SrcVals(_)
SrcVals(srcs) == IF srcs = <<>> THEN <<>> ELSE IssuedVals(slots[Head(srcs)]) \o SrcVals(Tail(srcs))
ReserveItemsSufficient ==
  Structural(Sh) =>
    \A s \in SlotIds : \A bi \in BatchIdx :
      Fits(StorLens(Sh, PushAll(Sh, slots[s].st, BatchAt(bi))),
           AddSeqs(StorLens(Sh, slots[s].st), ReserveItemsAmt(Sh, BatchAt(bi))))
ReserveRegionsSufficient ==
  Structural(Sh) =>
    \A s \in SlotIds : \A srcs \in SrcLists :
      LET states == [i \in 1..Len(srcs) |-> slots[srcs[i]].st]
      IN  /\ Fits(StorLens(Sh, PushAll(Sh, slots[s].st, SrcVals(srcs))),
                  AddSeqs(StorLens(Sh, slots[s].st), ReserveRegionsAmt(Sh, states)))
          \* merge_regions: an empty region with capacity for the sources' contents
          /\ Fits(StorLens(Sh, PushAll(Sh, MergeR(Sh, states), SrcVals(srcs))), ReserveRegionsAmt(Sh, states))

\* C15: the comparison oracle is a consistent total order on the domain (validates the oracle)
OrderLaws ==
  subj.caps.cmp =>
    \A a \in DomIdx, b \in DomIdx, c \in DomIdx :
      LET ab == CmpV(Sh, DomAt(a), DomAt(b))
          bc == CmpV(Sh, DomAt(b), DomAt(c))
          ac == CmpV(Sh, DomAt(a), DomAt(c))
      IN  /\ CmpV(Sh, DomAt(a), DomAt(a)) = "eq"
          /\ CmpV(Sh, DomAt(b), DomAt(a)) = Flip(ab)
          /\ (ab = "eq") <=> (a = b)
          /\ (ab = "lt" /\ bc = "lt") => ac = "lt"
          /\ (ab = "lt" /\ bc = "eq") => ac = "lt"

\* C18: used bytes never decrease on push (the last operation is visible in path')
UsedMonotone ==
  [][LastOp.op \in {"push", "push_from"} =>
       LET t == IF LastOp.op = "push" THEN LastOp.s ELSE LastOp.d
       IN  UsedR(Sh, slots'[t].st) >= UsedR(Sh, slots[t].st)]_vars

---------------------------------------------------------------------------
Obs(sls) == [s \in SlotIds |->
               [idx   |-> [i \in 1..Len(sls[s].issued) |-> sls[s].issued[i].idx],
                reads |-> [i \in 1..Len(sls[s].issued) |-> ReadR(Sh, sls[s].st, sls[s].issued[i].idx)],
                used  |-> UsedR(Sh, sls[s].st),
                lb    |-> PayloadR(Sh, sls[s].st)]]

EmitEdge ==
  Emit => PrintT(<<"EDGE", ToJson([subj |-> subj.name, path |-> path', res |-> res', obs |-> Obs(slots')])>>)
=============================================================================
