SPECIFICATION Spec
INVARIANTS Sane
CHECK_DEADLOCK FALSE
