----------------------------- MODULE Dictionary -----------------------------
(***************************************************************************)
(* CodecRegion<DictionaryCodec> (src/impls/codec.rs).                      *)
(*                                                                         *)
(* A region stores byte strings either literally or, when the string is    *)
(* in the current dictionary, as the one-byte TAG of its entry.  A stored  *)
(* string whose first byte is an assigned tag is READ as that entry.       *)
(* Hence the contract: a literal that starts with an assigned tag is       *)
(* ambiguous and must be refused at push.                                  *)
(*                                                                         *)
(* merge_regions builds the dictionary from the sources' statistics:       *)
(*   free tags   = bytes that no source saw as the first byte of a string  *)
(*   entries     = the most frequent strings, by descending count,         *)
(*                 assigned to the free tags in ascending order            *)
(* Ties in the ranking are not part of the contract (any consistent        *)
(* ranking is allowed).  Statistics are exact while the heavy-hitter       *)
(* summary never holds more than half its capacity of distinct strings;    *)
(* beyond that only strings that clearly dominate must be coded.           *)
(***************************************************************************)
EXTENDS Naturals, Sequences, FiniteSets, FiniteSetsExt, SequencesExt

Tags == 0..255

NoCounts == [s \in {} |-> 0]
Bump(c, x) == [s \in DOMAIN c \cup {x} |-> (IF s \in DOMAIN c THEN c[s] ELSE 0) + (IF s = x THEN 1 ELSE 0)]
Plus(a, b) == [s \in DOMAIN a \cup DOMAIN b |->
                 (IF s \in DOMAIN a THEN a[s] ELSE 0) + (IF s \in DOMAIN b THEN b[s] ELSE 0)]
RECURSIVE SumCounts(_)
SumCounts(cs) == IF cs = <<>> THEN NoCounts ELSE Plus(Head(cs), SumCounts(Tail(cs)))
RECURSIVE Total(_, _)
Total(c, S) == IF S = {} THEN 0 ELSE LET x == CHOOSE y \in S : TRUE IN c[x] + Total(c, S \ {x})

\* a freshly created (Default) or cleared region: empty dictionary, empty statistics
\*   dict   : function  assigned tag -> entry (a non-empty byte string)
\*   counts : exact statistics of the strings accepted since creation
\*   first  : first bytes of those strings
\*   stored : bytes occupied by the stored forms
EmptySlot == [dict |-> [t \in {} |-> <<>>], counts |-> NoCounts, first |-> {}, issued |-> <<>>,
              stored |-> 0, poisoned |-> FALSE]

Entries(sl) == {sl.dict[t] : t \in DOMAIN sl.dict}
InDict(sl, s) == s \in Entries(sl)
TagOf(sl, s) == CHOOSE t \in DOMAIN sl.dict : sl.dict[t] = s

\* the stored form, and what the region reads back from a stored form
Encode(sl, s) == IF InDict(sl, s) THEN <<TagOf(sl, s)>> ELSE s
Decode(sl, b) == IF b # <<>> /\ b[1] \in DOMAIN sl.dict THEN sl.dict[b[1]] ELSE b

\* a literal that would be read back as something else
Ambiguous(sl, s) == /\ ~InDict(sl, s)
                    /\ s # <<>>
                    /\ s[1] \in DOMAIN sl.dict

\* push: refused (slot poisoned) when ambiguous; the empty string is a literal and has no first byte
DPush(sl, s) ==
  IF Ambiguous(sl, s) THEN [sl EXCEPT !.poisoned = TRUE]
  ELSE LET b == Encode(sl, s)
       IN  [sl EXCEPT !.issued = Append(@, [b |-> b, v |-> s]),
                      !.stored = @ + Len(b),
                      !.counts = IF s = <<>> THEN @ ELSE Bump(@, s),
                      !.first = IF s = <<>> THEN @ ELSE @ \cup {s[1]}]

---------------------------------------------------------------------------
(* merge_regions                                                           *)
FreeTags(srcs) == Tags \ UNION {srcs[i].first : i \in 1..Len(srcs)}
MergedCounts(srcs) == SumCounts([i \in 1..Len(srcs) |-> srcs[i].counts])

\* the k smallest elements of a set of numbers, as an ascending sequence
FirstK(S, k) == SubSeq(SortSeq(SetToSeq(S), LAMBDA a, b : a < b), 1, k)

\* how many strings get a tag
NumCoded(srcs) == LET f == Cardinality(FreeTags(srcs))
                      d == Cardinality(DOMAIN MergedCounts(srcs))
                  IN  IF f < d THEN f ELSE d

\* `ranked` is a ranking of the distinct strings by descending count (ties in any order)
IsRanking(ranked, counts) ==
  /\ Len(ranked) = Cardinality(DOMAIN counts)
  /\ {ranked[i] : i \in 1..Len(ranked)} = DOMAIN counts
  /\ \A i \in 1..(Len(ranked) - 1) : counts[ranked[i]] >= counts[ranked[i + 1]]

\* the dictionary that results from a ranking
DictFrom(srcs, ranked) ==
  LET k == NumCoded(srcs)
      tags == FirstK(FreeTags(srcs), k)
  IN  [t \in {tags[i] : i \in 1..k} |-> ranked[CHOOSE i \in 1..k : tags[i] = t]]

MergedSlot(dict) == [EmptySlot EXCEPT !.dict = dict]

\* strings that every admissible ranking codes / that some admissible ranking codes
MustCode(srcs, s) ==
  LET c == MergedCounts(srcs)
      k == NumCoded(srcs)
  IN  s \in DOMAIN c /\ Cardinality({x \in DOMAIN c : c[x] >= c[s]}) <= k
MayCode(srcs, s) ==
  LET c == MergedCounts(srcs)
      k == NumCoded(srcs)
  IN  s \in DOMAIN c /\ Cardinality({x \in DOMAIN c : c[x] > c[s]}) < k
=============================================================================
