--------------------------- MODULE StringAlphabet ---------------------------
(***************************************************************************)
(* C04, program-text half: "the crate's single unchecked UTF-8 conversion  *)
(* is reachable only through write paths that accept string types".        *)
(*                                                                         *)
(* In RegionsMC the write alphabet of a string region is                   *)
(*    {Push(String), Push(&String), Push(&str), Push(&&str)}               *)
(* on a byte store nobody else can reach.  This module checks that the     *)
(* program text still has exactly that alphabet: a syntactic scan of       *)
(* /repo/src (lib/scan_api.py) lists every `unsafe` site, every            *)
(* `impl Push<T> for StringRegion`, and how the byte store is exposed; the *)
(* facts are read here and compared with the model's assumptions.          *)
(* This is an alphabet-conformance check, not a proof about Rust semantics.*)
(***************************************************************************)
EXTENDS Naturals, Sequences, FiniteSets, TLC, Json, IOUtils

Facts == JsonDeserialize(IOEnv.FACTS)

VARIABLE x
Init == x = 0
Next == UNCHANGED x
Spec == Init /\ [][Next]_x

SeqToSet(s) == {s[i] : i \in 1..Len(s)}

\* the write actions of the model for a string region
StringInputTypes == {"String", "&String", "&str", "&&str"}

\* exactly one unsafe site: the unchecked conversion inside StringRegion's `index`
UnsafeSitesExpected ==
  /\ Len(Facts.unsafe_sites) = 1
  /\ Facts.unsafe_sites[1].file = "src/impls/string.rs"
  /\ Facts.unsafe_sites[1].function = "index"
  /\ Facts.unsafe_sites[1].uses_unchecked
  /\ Len(Facts.unchecked_conversions) = 1

\* every write path into a string region accepts a string type
PushTypesAreStrings == SeqToSet(Facts.string_push_types) \subseteq StringInputTypes
\* ... and all four forms of the model exist (otherwise the model explores forms the code lacks)
PushTypesComplete == StringInputTypes \subseteq SeqToSet(Facts.string_push_types)

\* every such write path forwards to the byte store through a string view, nothing else
PushBodiesForward == \A i \in 1..Len(Facts.string_push_bodies) : Facts.string_push_bodies[i].forwards_string_view

\* the byte store is not reachable from outside: private field, no mutable accessor
InnerPrivate == /\ ~Facts.string_inner_public
                /\ Len(Facts.string_mut_accessors) = 0
=============================================================================
