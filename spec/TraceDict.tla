------------------------------ MODULE TraceDict ------------------------------
(***************************************************************************)
(* Trace validation for CodecRegion<DictionaryCodec>.  Each recorded event *)
(* must be an outcome Dictionary.tla allows.  The one thing the spec       *)
(* leaves open - which of several equally frequent strings get the last    *)
(* tags - is inferred from the log: the stored-byte delta of a push tells  *)
(* whether the string was coded, and must be consistent with MustCode /    *)
(* MayCode computed from the spec's OWN statistics of the source regions.  *)
(*                                                                         *)
(* WHICH free bytes serve as tags is not part of the contract either (the  *)
(* property demands exact bytes back or a refusal, and one byte for the    *)
(* dominant strings): the monitor only knows the bytes that MAY be tags -  *)
(* those no source region saw as a first byte - learns the actual ones     *)
(* from refusals, and demands consistency: at most k tags, a byte that     *)
(* carried an accepted literal is no tag, no refusal of an input whose     *)
(* first byte the sources saw or which is a dictionary entry.  That an     *)
(* accepted input is never read back as different bytes is checked on the  *)
(* read itself.                                                            *)
(*                                                                         *)
(* Beyond the heavy-hitter summary's exact regime (more distinct strings   *)
(* than half its capacity) only clearly dominant strings must be coded.    *)
(***************************************************************************)
EXTENDS Dictionary, TLC, Json, IOUtils

Rec == ndJsonDeserialize(IOEnv.TRACE)

SummaryHalf == 512      \* MisraGries keeps at most this many distinct strings when it tidies
SummaryCap  == 1024

VARIABLES l, slots, skip, errs, cleared, reserved
vars == <<l, slots, skip, errs, cleared, reserved>>

\* `cleared`: slots that were cleared earlier in this run - a rejection on such a slot also
\* means that clear() did not make the region fresh (C08)
SlotOf(e) == IF "s" \in DOMAIN e THEN e.s ELSE IF "d" \in DOMAIN e THEN e.d ELSE 0
Err(e, why) == IF PrintT(<<"ERR", ToJson([line |-> l, run |-> e.run, why |-> why,
                                          afterclear |-> SlotOf(e) \in cleared,
                                          reserved |-> SlotOf(e) \in reserved])>>) THEN errs + 1 ELSE errs

RECURSIVE ErrAll(_, _, _)
ErrAll(e, whys, acc) == IF whys = <<>> THEN acc ELSE ErrAll(e, Tail(whys), Err(e, Head(whys)) - errs + acc)

\* monitor view of a slot: which tags are assigned, which strings must / may be entries,
\* what was learnt from the log about the ties, and the statistics it accumulates itself
Fresh == [tags |-> {}, ktags |-> {}, nontags |-> {}, must |-> {}, may |-> {}, anyseen |-> FALSE, coded |-> {}, literal |-> {}, k |-> 0,
          counts |-> NoCounts, first |-> {}, issued |-> <<>>, exact |-> TRUE, poisoned |-> FALSE]

Init == l = 1 /\ slots = <<>> /\ skip = FALSE /\ errs = 0 /\ cleared = {} /\ reserved = {}

Distinct(sl) == Cardinality(DOMAIN sl.counts)

MergedView(srcs) ==
  LET counts == MergedCounts(srcs)
      exact == /\ \A i \in 1..Len(srcs) : srcs[i].exact /\ Distinct(srcs[i]) <= SummaryHalf
               /\ \/ Cardinality(DOMAIN counts) <= SummaryHalf
                  \/ Total([i \in 1..Len(srcs) |-> Distinct(srcs[i])], 1..Len(srcs)) < SummaryCap
      free == FreeTags(srcs)
      total == Total(counts, DOMAIN counts)
      k == IF exact THEN NumCoded(srcs)
           ELSE IF Cardinality(free) < Cardinality(DOMAIN counts) THEN Cardinality(free) ELSE Cardinality(DOMAIN counts)
  IN  [Fresh EXCEPT
         !.tags = IF k = 0 THEN {} ELSE free,      \* the bytes that MAY be tags; at most k of them are
         !.k = k,
         !.must = IF exact THEN {s \in DOMAIN counts : MustCode(srcs, s)}
                  ELSE IF k = 0 THEN {} ELSE {s \in DOMAIN counts : 4 * counts[s] > 3 * total},
         !.may = IF exact THEN {s \in DOMAIN counts : MayCode(srcs, s)} ELSE DOMAIN counts]

Step(e) ==
  CASE e.ev = "reset" ->
         /\ slots' = [s \in 1..e.nslots |-> Fresh]
         /\ skip' = FALSE
         /\ errs' = errs
    [] skip -> UNCHANGED <<slots, skip, errs>>
    [] e.ev = "push" ->
         LET sl == slots[e.s]
             v == e.v
             mayBeTag == v # <<>> /\ v[1] \in sl.tags /\ v[1] \notin sl.nontags
             knownTag == v # <<>> /\ v[1] \in sl.ktags
             inMust == v \in sl.must \/ v \in sl.coded
             inMay == (v \in sl.may /\ v \notin sl.literal) \/ v \in sl.coded
         IN  IF e.panic
             THEN \* a refusal is legitimate only for an input the dictionary cannot represent: its first byte may be
                  \* a tag (no source saw it as a first byte, no literal starting with it was accepted, and it does not
                  \* raise the number of tags beyond the number of entries) and it is not a string that must be coded
                  IF mayBeTag /\ ~inMust /\ Cardinality(sl.ktags \cup {v[1]}) <= sl.k
                  THEN slots' = [slots EXCEPT ![e.s].poisoned = TRUE, ![e.s].ktags = @ \cup {v[1]}] /\ UNCHANGED <<skip, errs>>
                  ELSE errs' = Err(e, "push-panicked") /\ skip' = TRUE /\ UNCHANGED slots
             ELSE LET wasCoded == Len(v) > 1 /\ e.delta = 1
                      \* every failing check of this push is reported (one wrong answer must not hide another)
                      readwhy == IF e.read_err # "" THEN <<"read-failed">>
                                 ELSE IF e.read # v THEN <<"read-back-differs">> ELSE <<>>
                      sizewhy == IF knownTag /\ ~inMay THEN "ambiguous-input-accepted"
                                 ELSE IF inMust /\ Len(v) > 1 /\ ~wasCoded THEN "frequent-string-not-coded"
                                 ELSE IF ~inMay /\ e.delta # Len(v) THEN "literal-size-differs"
                                 ELSE IF wasCoded /\ ~inMay THEN "coded-without-statistics"
                                 ELSE IF e.delta # 1 /\ e.delta # Len(v) THEN "stored-size-differs"
                                 ELSE IF wasCoded /\ v \notin sl.coded /\ Cardinality(sl.coded) >= sl.k THEN "more-entries-than-tags"
                                 ELSE "ok"
                      whys == readwhy \o (IF ~e.stable THEN <<"earlier-item-changed">> ELSE <<>>)
                                      \o (IF sizewhy # "ok" THEN <<sizewhy>> ELSE <<>>)
                  IN  IF whys = <<>>
                      THEN /\ slots' = [slots EXCEPT ![e.s] =
                                  [sl EXCEPT !.issued = Append(@, v),
                                             !.counts = IF v = <<>> THEN @ ELSE Bump(@, v),
                                             !.first = IF v = <<>> THEN @ ELSE @ \cup {v[1]},
                                             !.nontags = IF v # <<>> /\ ~wasCoded /\ ~inMay THEN @ \cup {v[1]} ELSE @,
                                             !.coded = IF wasCoded THEN @ \cup {v} ELSE @,
                                             !.literal = IF Len(v) > 1 /\ ~wasCoded THEN @ \cup {v} ELSE @]]
                           /\ UNCHANGED <<skip, errs>>
                      ELSE errs' = ErrAll(e, whys, errs) /\ skip' = TRUE /\ UNCHANGED slots
    [] e.ev = "merge" ->
         IF e.panic
         THEN errs' = Err(e, "merge-panicked") /\ skip' = TRUE /\ UNCHANGED slots
         ELSE /\ slots' = [slots EXCEPT ![e.d] = MergedView([i \in 1..Len(e.srcs) |-> slots[e.srcs[i]]])]
              /\ UNCHANGED <<skip, errs>>
    [] e.ev = "reserve" ->
         \* reserve_regions: pre-sizing only - every issued item reads as before and the monitor's view of the slot
         \* (tags, what must / may be coded) is untouched; later rejections on the slot are tagged `reserved`
         IF e.panic THEN errs' = Err(e, "reserve-panicked") /\ skip' = TRUE /\ UNCHANGED slots
         ELSE IF ~e.stable THEN errs' = Err(e, "reserve-changed-reads") /\ skip' = TRUE /\ UNCHANGED slots
         ELSE UNCHANGED <<slots, skip, errs>>
    [] e.ev = "clear" ->
         IF e.panic
         THEN errs' = Err(e, "clear-panicked") /\ skip' = TRUE /\ UNCHANGED slots
         ELSE slots' = [slots EXCEPT ![e.s] = Fresh] /\ UNCHANGED <<skip, errs>>

Next == /\ l <= Len(Rec)
        /\ l' = l + 1
        /\ Step(Rec[l])
        /\ cleared' = IF Rec[l].ev = "reset" THEN {}
                      ELSE IF Rec[l].ev = "clear" THEN cleared \cup {Rec[l].s}
                      ELSE IF Rec[l].ev = "merge" THEN cleared \ {Rec[l].d}
                      ELSE cleared
        /\ reserved' = IF Rec[l].ev = "reset" THEN {}
                       ELSE IF Rec[l].ev = "reserve" THEN reserved \cup {Rec[l].s}
                       ELSE IF Rec[l].ev = "merge" THEN reserved \ {Rec[l].d}
                       ELSE IF Rec[l].ev = "clear" THEN reserved \ {Rec[l].s}
                       ELSE reserved
        /\ (l = Len(Rec)) => PrintT(<<"DONE", l, errs'>>)

Spec == Init /\ [][Next]_vars

\* invariants of the monitor state, evaluated in every state of every recorded run
TagsFree == \A s \in DOMAIN slots : /\ slots[s].must \subseteq slots[s].may
                                     /\ slots[s].ktags \subseteq slots[s].tags       \* learnt tags are bytes no source saw first
                                     /\ Cardinality(slots[s].ktags) <= slots[s].k    \* never more tags than entries
                                     /\ slots[s].ktags \cap slots[s].nontags = {}
LearntConsistent == \A s \in DOMAIN slots : slots[s].coded \cap slots[s].literal = {}
=============================================================================
