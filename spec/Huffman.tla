------------------------------ MODULE Huffman ------------------------------
(***************************************************************************)
(* HuffmanContainer (src/impls/huffman_container.rs) as a state machine    *)
(* over slot records.  A container is in RAW mode (stores symbols) before  *)
(* any merge and after clear, or in CODED mode with a prefix code whose    *)
(* lengths `lens` are ANY optimal code for the merged statistics (the      *)
(* tie-breaking of the tree construction is not part of the contract).     *)
(* Items of a coded container tile the bit axis: item k occupies           *)
(* [cursor_k, cursor_k + sum of code lengths), so every start and end      *)
(* bit offset is a state of this model.                                    *)
(***************************************************************************)
EXTENDS Naturals, Sequences, FiniteSets, SequencesExt, FiniteSetsExt

RECURSIVE SumOver(_, _)
\* sum of f[x] over a set of keys
SumOver(f, S) == IF S = {} THEN 0 ELSE LET x == CHOOSE y \in S : TRUE IN f[x] + SumOver(f, S \ {x})

RECURSIVE Pow2(_)
Pow2(n) == IF n = 0 THEN 1 ELSE 2 * Pow2(n - 1)

---------------------------------------------------------------------------
(* statistics: a function from the symbols seen to their positive counts   *)
NoStats == [s \in {} |-> 0]
Bump(c, x) == [s \in DOMAIN c \cup {x} |-> (IF s \in DOMAIN c THEN c[s] ELSE 0) + (IF s = x THEN 1 ELSE 0)]
RECURSIVE AddCounts(_, _)
AddCounts(c, item) == IF item = <<>> THEN c ELSE AddCounts(Bump(c, Head(item)), Tail(item))
Plus(a, b) == [s \in DOMAIN a \cup DOMAIN b |->
                 (IF s \in DOMAIN a THEN a[s] ELSE 0) + (IF s \in DOMAIN b THEN b[s] ELSE 0)]
RECURSIVE MergeCounts(_)
MergeCounts(cs) == IF cs = <<>> THEN NoStats ELSE Plus(Head(cs), MergeCounts(Tail(cs)))

---------------------------------------------------------------------------
(* The optimum: cost of a Huffman tree = sum of the weights of its         *)
(* internal nodes.  Two-queue formulation: sorted leaves L and the FIFO M  *)
(* of merged nodes are both non-decreasing, so the two smallest weights    *)
(* are always at the fronts; linear in the number of symbols.              *)
RECURSIVE TQ(_, _, _, _, _)
TQ(L, i, M, j, acc) ==
  LET nl == Len(L) - i + 1
      nm == Len(M) - j + 1
  IN  IF nl + nm <= 1 THEN acc
      ELSE LET leaf1 == nl > 0 /\ (nm = 0 \/ L[i] <= M[j])
               a  == IF leaf1 THEN L[i] ELSE M[j]
               i1 == IF leaf1 THEN i + 1 ELSE i
               j1 == IF leaf1 THEN j ELSE j + 1
               leaf2 == Len(L) - i1 + 1 > 0 /\ (Len(M) - j1 + 1 = 0 \/ L[i1] <= M[j1])
               b  == IF leaf2 THEN L[i1] ELSE M[j1]
               i2 == IF leaf2 THEN i1 + 1 ELSE i1
               j2 == IF leaf2 THEN j1 ELSE j1 + 1
           IN  TQ(L, i2, Append(M, a + b), j2, acc + a + b)

Weights(counts) == SortSeq([i \in 1..Cardinality(DOMAIN counts) |-> counts[SetToSeq(DOMAIN counts)[i]]],
                           LAMBDA x, y : x < y)

\* minimum total bits, with at least one bit per symbol
OptimalCost(counts) ==
  CASE Cardinality(DOMAIN counts) = 0 -> 0
    [] Cardinality(DOMAIN counts) = 1 -> SumOver(counts, DOMAIN counts)
    [] OTHER -> TQ(Weights(counts), 1, <<>>, 1, 0)

Cost(lens, counts) == SumOver([s \in DOMAIN counts |-> counts[s] * lens[s]], DOMAIN counts)

\* Kraft inequality: a prefix code with these lengths exists
MaxLen(lens) == IF DOMAIN lens = {} THEN 0 ELSE Max({lens[s] : s \in DOMAIN lens})
KraftOK(lens) == LET L == MaxLen(lens)
                 IN  SumOver([s \in DOMAIN lens |-> Pow2(L - lens[s])], DOMAIN lens) <= Pow2(L)

\* `lens` is the length table of an optimal prefix code for `counts`
OptimalCode(lens, counts) ==
  /\ DOMAIN lens = DOMAIN counts
  /\ \A s \in DOMAIN lens : lens[s] >= 1
  /\ KraftOK(lens)
  /\ Cost(lens, counts) = OptimalCost(counts)

\* independent oracle for small alphabets: the minimum over ALL admissible length tables
BruteMinCost(counts, maxlen) ==
  IF DOMAIN counts = {} THEN 0
  ELSE Min({Cost(l, counts) : l \in {f \in [DOMAIN counts -> 1..maxlen] : KraftOK(f)}})

\* One optimal length table, by the textbook construction: repeatedly join the two lightest
\* groups; every member of a joined group gets one bit deeper.  Ties are broken arbitrarily
\* (CHOOSE) - the contract does not fix them.
RECURSIVE Join(_, _)
\* groups: a set of records [w |-> weight, m |-> set of symbols]; lens: function symbol -> depth
Join(groups, lens) ==
  IF Cardinality(groups) <= 1 THEN lens
  ELSE LET a == CHOOSE g \in groups : \A h \in groups : g.w <= h.w
           rest == groups \ {a}
           b == CHOOSE g \in rest : \A h \in rest : g.w <= h.w
           deeper == [s \in DOMAIN lens |-> IF s \in a.m \cup b.m THEN lens[s] + 1 ELSE lens[s]]
       IN  Join((rest \ {b}) \cup {[w |-> a.w + b.w, m |-> a.m \cup b.m]}, deeper)

HuffLens(counts) ==
  IF Cardinality(DOMAIN counts) = 1 THEN [s \in DOMAIN counts |-> 1]
  ELSE Join({[w |-> counts[s], m |-> {s}] : s \in DOMAIN counts}, [s \in DOMAIN counts |-> 0])

\* candidate outcomes of a merge: every optimal table when the alphabet is small enough to
\* enumerate, one canonical optimal table otherwise
OptimalTables(counts, maxlen) ==
  IF Cardinality(DOMAIN counts) <= 3
  THEN {l \in [DOMAIN counts -> 1..maxlen] : OptimalCode(l, counts)}
  ELSE {HuffLens(counts)}

---------------------------------------------------------------------------
(* Slots                                                                   *)
RawSlot == [mode |-> "raw", lens |-> NoStats, cursor |-> 0, stats |-> NoStats, issued |-> <<>>, poisoned |-> FALSE]
CodedSlot(lens) == [mode |-> "coded", lens |-> lens, cursor |-> 0, stats |-> NoStats, issued |-> <<>>, poisoned |-> FALSE]

Encodable(sl, v) == sl.mode = "raw" \/ \A i \in 1..Len(v) : v[i] \in DOMAIN sl.lens
Bits(sl, v) == IF sl.mode = "raw" THEN Len(v) ELSE SumOver([i \in 1..Len(v) |-> sl.lens[v[i]]], 1..Len(v))

\* Push: statistics count every symbol in either mode; a symbol outside the code is refused
\* (the slot is then poisoned: nothing constrains it any further)
HPush(sl, v) ==
  IF ~Encodable(sl, v)
  THEN [sl EXCEPT !.poisoned = TRUE]
  ELSE [sl EXCEPT !.stats = AddCounts(@, v),
                  !.cursor = @ + Bits(sl, v),
                  !.issued = Append(@, [idx |-> <<sl.cursor, sl.cursor + Bits(sl, v)>>, v |-> v])]

HMergedCounts(srcs) == MergeCounts([i \in 1..Len(srcs) |-> srcs[i].stats])

\* items tile the bit (or symbol) axis; the cursor is the end of the last item
TilingOf(sl) ==
  LET is == sl.issued
  IN  /\ \A k \in 1..Len(is) : is[k].idx[1] = (IF k = 1 THEN 0 ELSE is[k - 1].idx[2])
      /\ sl.cursor = (IF is = <<>> THEN 0 ELSE is[Len(is)].idx[2])
      /\ \A k \in 1..Len(is) : is[k].idx[2] - is[k].idx[1] = Bits(sl, is[k].v)

\* a coded container carries a prefix code with at least one bit per symbol
CodeSaneOf(sl) == sl.mode = "coded" => /\ KraftOK(sl.lens)
                                        /\ \A x \in DOMAIN sl.lens : sl.lens[x] >= 1

\* lexicographic order of symbol sequences (C15)
RECURSIVE LexCmp(_, _)
LexCmp(a, b) ==
  IF a = <<>> /\ b = <<>> THEN "eq"
  ELSE IF a = <<>> THEN "lt"
  ELSE IF b = <<>> THEN "gt"
  ELSE IF Head(a) < Head(b) THEN "lt"
  ELSE IF Head(a) > Head(b) THEN "gt"
  ELSE LexCmp(Tail(a), Tail(b))
=============================================================================
