---------------------------- MODULE TraceHuffman ----------------------------
(***************************************************************************)
(* Trace validation for HuffmanContainer: every event the harness recorded *)
(* from the real code (ndjson file named by the environment variable       *)
(* TRACE) must be the outcome Huffman.tla allows for the operation of that *)
(* name with the logged arguments.  The only nondeterminism of the spec -  *)
(* which optimal code a merge picks - is bound from the log: the measured  *)
(* code lengths must form an OptimalCode for the spec's OWN merged         *)
(* statistics (so mis-counted statistics are caught too).                  *)
(*                                                                         *)
(* The trace holds many short runs separated by `reset` events.  A         *)
(* mismatch is recorded in `errs` (with the line, the run and a reason)    *)
(* and the rest of that run is skipped, so one pass reports every failing  *)
(* run.  Tiling and CodeSane are evaluated as invariants in every state.   *)
(***************************************************************************)
EXTENDS Huffman, TLC, Json, IOUtils

Rec == ndJsonDeserialize(IOEnv.TRACE)

VARIABLES l, slots, skip, errs, cleared, wrapped, copied
vars == <<l, slots, skip, errs, cleared, wrapped, copied>>

LensOf(ps) == [s \in {ps[i][1] : i \in 1..Len(ps)} |-> ps[CHOOSE i \in 1..Len(ps) : ps[i][1] = s][2]]

\* a mismatch is printed at once (ERR line) and counted; `errs` is the count
\* `cleared`: slots that were cleared earlier in this run - a rejection on such a slot also
\* means that clear() did not make the container fresh (C08)
SlotOf(e) == IF e.ev \in {"merge", "copy"} THEN e.d ELSE IF "s" \in DOMAIN e THEN e.s ELSE 0
Err(e, why) == IF PrintT(<<"ERR", ToJson([line |-> l, run |-> e.run, why |-> why,
                                          afterclear |-> SlotOf(e) \in cleared,
                                          wrapped |-> SlotOf(e) \in wrapped,
                                          copied |-> SlotOf(e) \in copied])>>) THEN errs + 1 ELSE errs

RECURSIVE ErrAll(_, _, _)
ErrAll(e, whys, acc) == IF whys = <<>> THEN acc ELSE ErrAll(e, Tail(whys), Err(e, Head(whys)) - errs + acc)

Init == l = 1 /\ slots = <<>> /\ skip = FALSE /\ errs = 0 /\ cleared = {} /\ wrapped = {} /\ copied = {}

\* why a logged length table is not an optimal code for the spec's statistics
CodeDefect(lens, counts) ==
  IF DOMAIN lens # DOMAIN counts THEN "code-domain-differs-from-statistics"
  ELSE IF \E s \in DOMAIN lens : lens[s] < 1 THEN "zero-bit-code"
  ELSE IF ~KraftOK(lens) THEN "not-a-prefix-code"
  ELSE IF Cost(lens, counts) # OptimalCost(counts) THEN "suboptimal-code"
  ELSE "ok"

Step(e) ==
  CASE e.ev = "reset" ->
         /\ slots' = [s \in 1..e.nslots |-> RawSlot]
         /\ skip' = FALSE
         /\ errs' = errs
    [] e.ev = "cmp" ->
         \* self-contained: the event carries the owned values that were pushed for the two read items, so it is
         \* judged even while the rest of a rejected run is skipped (this arm precedes the skip arm)
         LET a == e.va
             b == e.vb
             want == LexCmp(a, b)
             rev == LexCmp(b, a)
         IN  IF e.panic THEN errs' = Err(e, "cmp-panicked") /\ UNCHANGED <<slots, skip>>
             ELSE IF e.r.cmp = want /\ e.r.partial_cmp = want /\ e.r.rev_cmp = rev /\ (e.r.eq <=> want = "eq")
                  THEN UNCHANGED <<slots, skip, errs>>
                  ELSE errs' = Err(e, "cmp-differs-from-owned-order") /\ UNCHANGED <<slots, skip>>
    [] skip -> UNCHANGED <<slots, skip, errs>>
    [] e.ev = "push" ->
         LET sl == slots[e.s]
             refuse == ~Encodable(sl, e.v)
             nsl == HPush(sl, e.v)
         IN  IF e.panic
             THEN IF refuse
                  THEN slots' = [slots EXCEPT ![e.s] = nsl] /\ UNCHANGED <<skip, errs>>
                  ELSE errs' = Err(e, "push-panicked") /\ skip' = TRUE /\ UNCHANGED slots
             ELSE IF refuse
                  THEN errs' = Err(e, "symbol-outside-statistics-was-stored") /\ skip' = TRUE /\ UNCHANGED slots
                  ELSE LET want == nsl.issued[Len(nsl.issued)].idx
                           \* every failing check is reported: a wrong read must not hide a changed earlier item
                           whys == (IF e.idx # want THEN <<"bit-range-differs">> ELSE <<>>)
                                   \o (IF e.read_err # "" THEN <<"read-failed">>
                                       ELSE IF e.read # e.v THEN <<"read-differs">> ELSE <<>>)
                                   \o (IF ~e.stable THEN <<"earlier-item-changed">> ELSE <<>>)
                                   \o (IF ~e.onto_ok THEN <<"clone-onto-differs">> ELSE <<>>)
                       IN  IF whys = <<>>
                           THEN slots' = [slots EXCEPT ![e.s] = nsl] /\ UNCHANGED <<skip, errs>>
                           ELSE errs' = ErrAll(e, whys, errs) /\ skip' = TRUE /\ UNCHANGED slots
    [] e.ev = "merge" ->
         LET counts == HMergedCounts([i \in 1..Len(e.srcs) |-> slots[e.srcs[i]]])
         IN  IF e.panic
             THEN errs' = Err(e, "merge-panicked") /\ skip' = TRUE /\ UNCHANGED slots
             ELSE LET lens == LensOf(e.lens)
                      why == CodeDefect(lens, counts)
                      \* C08: with brand-new twins in place of the sources that had been cleared, the recorder's own second
                      \* merge must yield a code for the same symbols
                      whys == (IF why = "ok" THEN <<>> ELSE <<why>>) \o
                              (IF ~e.fresh_same THEN <<"merge-over-cleared-differs-from-fresh">> ELSE <<>>)
                  IN  IF whys = <<>>
                      THEN slots' = [slots EXCEPT ![e.d] = CodedSlot(lens)] /\ UNCHANGED <<skip, errs>>
                      ELSE errs' = ErrAll(e, whys, errs) /\ skip' = TRUE /\ UNCHANGED slots
    [] e.ev = "copy" ->
         \* clone / clone_from: the destination becomes the source in every respect (mode, code, cursor,
         \* statistics, issued items); what the copy answers afterwards is judged like any container
         IF e.panic THEN errs' = Err(e, "copy-panicked") /\ skip' = TRUE /\ UNCHANGED slots
         ELSE IF ~e.same THEN errs' = Err(e, "copy-reads-differently") /\ skip' = TRUE /\ UNCHANGED slots
         ELSE slots' = [slots EXCEPT ![e.d] = slots[e.s]] /\ UNCHANGED <<skip, errs>>
    [] e.ev = "clear" ->
         IF e.panic
         THEN errs' = Err(e, "clear-panicked") /\ skip' = TRUE /\ UNCHANGED slots
         ELSE slots' = [slots EXCEPT ![e.s] = RawSlot] /\ UNCHANGED <<skip, errs>>

Next == /\ l <= Len(Rec)
        /\ l' = l + 1
        /\ Step(Rec[l])
        /\ cleared' = IF Rec[l].ev = "reset" THEN {}
                      ELSE IF Rec[l].ev = "clear" THEN cleared \cup {Rec[l].s}
                      ELSE IF Rec[l].ev = "merge" THEN cleared \ {Rec[l].d}
                      ELSE IF Rec[l].ev = "copy"
                           THEN IF Rec[l].s \in cleared THEN cleared \cup {Rec[l].d} ELSE cleared \ {Rec[l].d}
                      ELSE cleared
        \* `wrapped`: containers that received a read item of another container as input (C20), and
        \* the containers whose code was built from their statistics
        /\ wrapped' = IF Rec[l].ev = "reset" THEN {}
                      ELSE IF Rec[l].ev = "push" /\ Rec[l].form = "wrapped" THEN wrapped \cup {Rec[l].s}
                      ELSE IF Rec[l].ev = "merge"
                           THEN IF \E i \in 1..Len(Rec[l].srcs) : Rec[l].srcs[i] \in wrapped
                                THEN wrapped \cup {Rec[l].d} ELSE wrapped \ {Rec[l].d}
                      ELSE IF Rec[l].ev = "copy"
                           THEN IF Rec[l].s \in wrapped THEN wrapped \cup {Rec[l].d} ELSE wrapped \ {Rec[l].d}
                      ELSE wrapped
        \* `copied`: containers produced by clone / clone_from (C09)
        /\ copied' = IF Rec[l].ev = "reset" THEN {}
                     ELSE IF Rec[l].ev = "copy" THEN copied \cup {Rec[l].d}
                     ELSE IF Rec[l].ev = "merge" THEN copied \ {Rec[l].d}
                     ELSE copied
        /\ (l = Len(Rec)) => PrintT(<<"DONE", l, errs'>>)

Spec == Init /\ [][Next]_vars

\* invariants of the specification, evaluated in every state of every recorded run
Tiling == \A s \in DOMAIN slots : ~slots[s].poisoned => TilingOf(slots[s])
CodeSane == \A s \in DOMAIN slots : CodeSaneOf(slots[s])
=============================================================================
