SPECIFICATION Spec
CONSTANTS
  SubjectNames = {"fs_string", "fs_cip_str_opt", "fs_cols_str_opt", "fs_mirror_usize_opt", "fs_mirror_usize_list", "fs_opt_res", "fs_cols_u8_list","fs_collapse_cip_str_opt"}
  MaxOps = 3
  MaxGhost = 1
  DomSize = 3
  Ops = {"copy", "extend", "from_iter", "clear", "with_capacity", "merge_capacity", "reserve", "clone", "clone_from", "serde", "reserve_regions"}
  Emit = TRUE
  U32Limit = 2147483647
VIEW View
ACTION_CONSTRAINT EmitEdge
INVARIANTS Denote LenOK GetOK RegionShaped IndexBytesZero IndexCost
PROPERTIES AppendOnly
CHECK_DEADLOCK FALSE
