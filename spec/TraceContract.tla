---------------------------- MODULE TraceContract ----------------------------
(***************************************************************************)
(* impl -> spec: recorded histories of the real regions (harness `drive`), *)
(* over the real value domains and far beyond the bounds of the model      *)
(* (thousands of pushes, offsets beyond u32::MAX, index values around      *)
(* usize::MAX), validated against the layout-independent region contract  *)
(* (RegionContract.tla).  The monitor keeps, per slot, only what the       *)
(* contract needs: how many items are live and the last pushed value.      *)
(*                                                                         *)
(*   C03  FlatStacks over index values beyond u32::MAX denote the copies   *)
(*   C01  the item read at the new index renders as the pushed value       *)
(*   C02  every earlier index still renders as when first read             *)
(*   C09 / C16  a copy reads exactly like its source                       *)
(*   C10  reservations change nothing; a merged region starts empty        *)
(*   C11  a top-level collapsing region returns the previous index exactly *)
(*        for a value Equal to the previous one, and then stores nothing   *)
(*   C12  dense-index regions return 0, 1, 2, ... since the last reset     *)
(*   C18  used <= capacity, used never decreases on push, no capacity      *)
(*        shrinks on clear                                                 *)
(* Each rejection carries the property it belongs to; a check only acts on *)
(* the rejections of its own property.                                     *)
(***************************************************************************)
EXTENDS Naturals, Sequences, FiniteSets, TLC, Json, IOUtils

CONSTANT U32Limit
INSTANCE Regions

Rec == ndJsonDeserialize(IOEnv.TRACE)

VARIABLES l, meta, slots, skip, errs
vars == <<l, meta, slots, skip, errs>>
\* (which slots were cleared is not monitor state: the recorder feeds a brand-new twin region next to a cleared
\*  one and logs `fresh_same` - equal returned index, equal stored bytes - with every later push)

Err(e, prop, why) ==
  IF PrintT(<<"ERR", ToJson([line |-> l, run |-> e.run, why |-> why, prop |-> prop])>>) THEN errs + 1 ELSE errs

Fresh == [n |-> 0, has |-> FALSE, last |-> 0, dead |-> FALSE, items |-> <<>>]
Init == l = 1 /\ meta = [dense |-> FALSE, collapse |-> FALSE, shape |-> [k |-> "none"]] /\ slots = <<>> /\ skip = FALSE /\ errs = 0

RECURSIVE SumCaps(_)
SumCaps(q) == IF q = <<>> THEN 0 ELSE Head(q) + SumCaps(Tail(q))
\* pairwise where the callbacks line up, as a total otherwise (their number is not part of the contract)
Shrunk(cb, ca) == \/ Len(cb) = Len(ca) /\ \E i \in 1..Len(cb) : ca[i] < cb[i]
                  \/ SumCaps(ca) < SumCaps(cb)

\* every check a push fails, as <<property, reason>> pairs (a wrong read must not hide a changed
\* earlier item: they belong to different properties)
PushVerdicts(e, sl) ==
  IF e.panic THEN <<<<"C01", "push-panicked">>>> \o (IF ~e.fresh_same THEN <<<<"C08", "panics-where-fresh-accepts">>>> ELSE <<>>)
                                                 \o (IF e.item_form THEN <<<<"C20", "read-item-form-panics">>>> ELSE <<>>)
  ELSE
    (IF e.read_err # "" THEN <<<<"C01", "read-failed">>>>
     ELSE IF e.read_s # e.v_s THEN <<<<"C01", "read-differs">>>> ELSE <<>>)
    \o (IF e.item_form /\ (e.read_err # "" \/ e.read_s # e.v_s) THEN <<<<"C20", "read-item-form-reads-differently">>>> ELSE <<>>)
    \o (IF e.bad_utf8 THEN <<<<"C04", "invalid-utf8-handed-out">>>> ELSE <<>>)
    \o (IF ~e.stable THEN <<<<"C02", "earlier-read-changed">>>> ELSE <<>>)
    \o (IF e.n_before # sl.n THEN <<<<"C01", "live-count-differs">>>> ELSE <<>>)
    \o (IF meta.dense /\ e.idx_num # sl.n THEN <<<<"C12", "index-not-dense">>>> ELSE <<>>)
    \o (IF meta.collapse /\ sl.has /\ Equal(meta.shape, e.v, sl.last) /\ ~e.same_as_prev
        THEN <<<<"C11", "not-collapsed">>>> ELSE <<>>)
    \o (IF meta.collapse /\ e.same_as_prev /\ ~(sl.has /\ Equal(meta.shape, e.v, sl.last))
        THEN <<<<"C11", "collapsed-unequal">>>> ELSE <<>>)
    \o (IF meta.collapse /\ e.same_as_prev /\ e.used_after # e.used_before
        THEN <<<<"C11", "stored-despite-equal">>>> ELSE <<>>)
    \o (IF ~e.fresh_same THEN <<<<"C08", "differs-from-fresh-after-clear">>>> ELSE <<>>)
    \o (IF ~e.pairs_ok THEN <<<<"C18", "used-exceeds-capacity">>>> ELSE <<>>)
    \o (IF e.used_after < e.used_before THEN <<<<"C18", "used-decreased-on-push">>>> ELSE <<>>)

RECURSIVE ErrAll(_, _, _)
ErrAll(e, vs, acc) == IF vs = <<>> THEN acc
                      ELSE ErrAll(e, Tail(vs), IF PrintT(<<"ERR", ToJson([line |-> l, run |-> e.run, why |-> Head(vs)[2], prop |-> Head(vs)[1]])>>)
                                                THEN acc + 1 ELSE acc)

Step(e) ==
  CASE e.ev = "reset" ->
         /\ meta' = [dense |-> e.dense, collapse |-> e.collapse, shape |-> e.shape]
         /\ slots' = [s \in 1..e.nslots |-> Fresh]
         /\ skip' = FALSE
         /\ errs' = errs
    \* self-contained: a &str whose bytes are not UTF-8 is a C04 finding whatever else went wrong before in this run
    [] skip /\ e.ev = "push" /\ ~e.panic /\ e.bad_utf8 ->
         errs' = Err(e, "C04", "invalid-utf8-handed-out") /\ UNCHANGED <<meta, slots, skip>>
    [] skip -> UNCHANGED <<meta, slots, skip, errs>>
    [] e.ev = "push" ->
         LET sl == slots[e.s]
             vds == PushVerdicts(e, sl)
         IN  IF vds = <<>>
             THEN /\ slots' = [slots EXCEPT ![e.s] = [n |-> sl.n + 1, has |-> meta.collapse,
                                                      last |-> IF meta.collapse THEN e.v ELSE 0, dead |-> FALSE,
                                                      items |-> <<>>]]
                  /\ UNCHANGED <<meta, skip, errs>>
             ELSE errs' = ErrAll(e, vds, errs) /\ skip' = TRUE /\ UNCHANGED <<meta, slots>>
    [] e.ev = "stack_copy" ->
         \* C03 for FlatStacks over index values no bounded model reaches: the stack is the sequence of copies
         LET sl == slots[e.s]
             want == Append(sl.items, e.v_s)
             why == IF e.panic THEN "copy-panicked"
                    ELSE IF e.len # Len(want) \/ e.is_empty THEN "len"
                    ELSE IF e.items_s # want THEN "get"
                    ELSE IF e.iter_s # want THEN "iter"
                    ELSE IF ~e.oob_ok THEN "out-of-bounds-or-iterator-laws"
                    ELSE "ok"
         IN  IF why = "ok"
             THEN slots' = [slots EXCEPT ![e.s].items = want] /\ UNCHANGED <<meta, skip, errs>>
             ELSE errs' = Err(e, "C03", why) /\ skip' = TRUE /\ UNCHANGED <<meta, slots>>
    [] e.ev = "clear" ->
         IF e.panic THEN errs' = Err(e, "C08", "clear-panicked") /\ skip' = TRUE /\ UNCHANGED <<meta, slots>>
         ELSE \* a shrunk capacity is reported, but it does not blur what the slot holds: the run goes on (a rejection
              \* that belongs to one property must not hide what follows for another)
              /\ errs' = IF Shrunk(e.caps_before, e.caps_after) THEN Err(e, "C18", "capacity-shrank-on-clear") ELSE errs
              /\ slots' = [slots EXCEPT ![e.s] = Fresh]
              /\ UNCHANGED <<meta, skip>>
    [] e.ev = "copy" ->
         LET prop == IF e.kind = "serde" THEN "C16" ELSE "C09"
         IN  IF e.panic THEN errs' = Err(e, prop, "copy-failed") /\ skip' = TRUE /\ UNCHANGED <<meta, slots>>
             ELSE IF e.obs_d # e.obs_s
                  THEN errs' = Err(e, prop, "copy-reads-differently") /\ skip' = TRUE /\ UNCHANGED <<meta, slots>>
                  ELSE slots' = [slots EXCEPT ![e.d] = slots[e.s]] /\ UNCHANGED <<meta, skip, errs>>
    [] e.ev = "merge" ->
         IF e.panic THEN errs' = Err(e, "C10", "merge-panicked") /\ skip' = TRUE /\ UNCHANGED <<meta, slots>>
         ELSE IF e.n_after # 0 THEN errs' = Err(e, "C10", "merged-not-empty") /\ skip' = TRUE /\ UNCHANGED <<meta, slots>>
         ELSE slots' = [slots EXCEPT ![e.d] = Fresh] /\ UNCHANGED <<meta, skip, errs>>
    [] e.ev = "reserve" ->
         IF e.panic THEN errs' = Err(e, "C10", "reserve-panicked") /\ skip' = TRUE /\ UNCHANGED <<meta, slots>>
         ELSE IF ~e.stable \/ e.n_after # slots[e.s].n
              THEN errs' = Err(e, "C10", "reserve-changed-reads") /\ skip' = TRUE /\ UNCHANGED <<meta, slots>>
              ELSE UNCHANGED <<meta, slots, skip, errs>>

Next == /\ l <= Len(Rec)
        /\ l' = l + 1
        /\ Step(Rec[l])
        /\ (l = Len(Rec)) => PrintT(<<"DONE", l, errs'>>)

Spec == Init /\ [][Next]_vars

CountsSane == \A s \in DOMAIN slots : slots[s].n >= 0
=============================================================================
