SPECIFICATION Spec
CONSTANTS U32Limit = 2147483647
INVARIANTS CountsSane
CHECK_DEADLOCK FALSE
