---------------------------- MODULE StrideProof ----------------------------
(***************************************************************************)
(* TLAPS-checked, UNBOUNDED statement of the step that ICMC checks only    *)
(* up to a bound: one Stride::push either refuses and leaves the state     *)
(* untouched, or extends the denoted sequence by exactly the pushed value  *)
(* and changes no earlier element (C05, Stride part; C02 for strides).     *)
(* The operators are those of StrideCore.tla itself (EXTENDS; IndexContainers.tla extends the same module), with   *)
(* its abstract numbers read as the naturals.  Overflow of stride * count  *)
(* is outside this reading: Word64 + TLC cover it (ICMC, TraceIC).         *)
(***************************************************************************)
EXTENDS StrideCore, TLAPS

ASSUME ZeroIsZero == Zero = 0
ASSUME MulIsTimes == \A a, b \in Nat : Mul(a, b) = a * b

\* well-formed stride states (what Stride::push can produce)
StrideWF(st) ==
  /\ st \in [tag : {"E", "Z", "S", "T"}, s : Nat, c : Nat, r : Nat]
  /\ st.tag = "S" => st.c >= 2
  /\ st.tag = "T" => st.c >= 2 /\ st.r >= 1

THEOREM InitWF == StrideWF(StrideInit)
  BY ZeroIsZero DEF StrideWF, StrideInit

THEOREM RejectIsNoop ==
  ASSUME NEW st, NEW x \in Nat, StrideWF(st), ~StridePush(st, x).ok
  PROVE  StridePush(st, x).st = st
  BY DEF StridePush, StrideWF

THEOREM PushKeepsWF ==
  ASSUME NEW st, NEW x \in Nat, StrideWF(st)
  PROVE  StrideWF(StridePush(st, x).st)
<1>1. CASE st.tag = "E"
  BY <1>1, ZeroIsZero DEF StridePush, StrideWF
<1>2. CASE st.tag = "Z"
  BY <1>2, ZeroIsZero DEF StridePush, StrideWF
<1>3. CASE st.tag = "S"
  <2>1. CASE Mul(st.s, st.c) = x
    BY <1>3, <2>1 DEF StridePush, StrideWF
  <2>2. CASE Mul(st.s, st.c) # x /\ Mul(st.s, st.c - 1) = x
    BY <1>3, <2>2 DEF StridePush, StrideWF
  <2>3. CASE Mul(st.s, st.c) # x /\ Mul(st.s, st.c - 1) # x
    BY <1>3, <2>3 DEF StridePush, StrideWF
  <2>4. QED
    BY <2>1, <2>2, <2>3
<1>4. CASE st.tag = "T"
  <2>1. CASE Mul(st.s, st.c - 1) = x
    BY <1>4, <2>1 DEF StridePush, StrideWF
  <2>2. CASE Mul(st.s, st.c - 1) # x
    BY <1>4, <2>2 DEF StridePush, StrideWF
  <2>3. QED
    BY <2>1, <2>2
<1>5. QED
  BY <1>1, <1>2, <1>3, <1>4 DEF StrideWF

THEOREM AcceptAppends ==
  ASSUME NEW st, NEW x \in Nat, StrideWF(st), StridePush(st, x).ok
  PROVE  /\ StrideLen(StridePush(st, x).st) = StrideLen(st) + 1
         /\ StrideIndex(StridePush(st, x).st, StrideLen(st)) = x
         /\ \A i \in 0..(StrideLen(st) - 1) : StrideIndex(StridePush(st, x).st, i) = StrideIndex(st, i)
<1>1. CASE st.tag = "E"
  BY <1>1, ZeroIsZero DEF StridePush, StrideWF, StrideLen, StrideIndex
<1>2. CASE st.tag = "Z"
  BY <1>2, ZeroIsZero, MulIsTimes DEF StridePush, StrideWF, StrideLen, StrideIndex
<1>3. CASE st.tag = "S"
  BY <1>3, ZeroIsZero, MulIsTimes DEF StridePush, StrideWF, StrideLen, StrideIndex
<1>4. CASE st.tag = "T"
  BY <1>4, ZeroIsZero, MulIsTimes DEF StridePush, StrideWF, StrideLen, StrideIndex
<1>5. QED
  BY <1>1, <1>2, <1>3, <1>4 DEF StrideWF
=============================================================================
