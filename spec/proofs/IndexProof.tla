----------------------------- MODULE IndexProof -----------------------------
(***************************************************************************)
(* TLAPS-checked, UNBOUNDED step theorems for the index containers         *)
(* (IndexCore.tla itself, extended here): one push                         *)
(*   - increases the length by one,                                        *)
(*   - makes the pushed value readable at the new position,                *)
(*   - changes no earlier position                 (C05; C02 for indices), *)
(*   - and costs exactly what the documented rule says: nothing while the  *)
(*     stride absorbs it, 4 bytes while every spilled value fits u32,      *)
(*     8 bytes from the first larger spilled value on             (C19).   *)
(* ICMC checks the same statements exhaustively up to a bound over exact   *)
(* 64-bit words; here the numbers are the naturals (no overflow).          *)
(***************************************************************************)
EXTENDS IndexCore, StrideProof, TLAPS   \* StrideProof: the assumptions on Zero / Mul, StrideWF, the Stride theorems

ASSUME Fits32IsBool == \A x \in Nat : Fits32(x) \in BOOLEAN

\* IndexList: smol holds values that fit u32; once chonk is used, everything goes there
ListWF(l) == /\ l \in [smol : Seq(Nat), chonk : Seq(Nat)]
             /\ \A i \in 1..Len(l.smol) : Fits32(l.smol[i])

---------------------------------------------------------------------------
THEOREM ListPushWF ==
  ASSUME NEW l, NEW x \in Nat, ListWF(l)
  PROVE  ListWF(ListPush(l, x))
<1>1. CASE l.chonk = <<>> /\ Fits32(x)
  BY <1>1 DEF ListWF, ListPush
<1>2. CASE ~(l.chonk = <<>> /\ Fits32(x))
  BY <1>2 DEF ListWF, ListPush
<1>3. QED
  BY <1>1, <1>2

THEOREM ListPushLen ==
  ASSUME NEW l, NEW x \in Nat, ListWF(l)
  PROVE  ListLen(ListPush(l, x)) = ListLen(l) + 1
<1>1. CASE l.chonk = <<>> /\ Fits32(x)
  BY <1>1 DEF ListWF, ListPush, ListLen
<1>2. CASE ~(l.chonk = <<>> /\ Fits32(x))
  BY <1>2 DEF ListWF, ListPush, ListLen
<1>3. QED
  BY <1>1, <1>2

\* the new element is readable at the new position, no earlier position changes
THEOREM ListPushIndex ==
  ASSUME NEW l, NEW x \in Nat, ListWF(l)
  PROVE  /\ ListIndexAt(ListPush(l, x), ListLen(l)) = x
         /\ \A i \in 0..(ListLen(l) - 1) : ListIndexAt(ListPush(l, x), i) = ListIndexAt(l, i)
<1>1. CASE l.chonk = <<>> /\ Fits32(x)
  BY <1>1 DEF ListWF, ListPush, ListLen, ListIndexAt
<1>2. CASE ~(l.chonk = <<>> /\ Fits32(x))
  BY <1>2 DEF ListWF, ListPush, ListLen, ListIndexAt
<1>3. QED
  BY <1>1, <1>2

\* C19, list: 4 bytes while no value has spilled to the wide half and the value fits u32, 8 bytes otherwise
THEOREM ListPushCost ==
  ASSUME NEW l, NEW x \in Nat, ListWF(l)
  PROVE  ListHeapUsed(ListPush(l, x)) =
           ListHeapUsed(l) + (IF l.chonk = <<>> /\ Fits32(x) THEN 4 ELSE 8)
<1>1. CASE l.chonk = <<>> /\ Fits32(x)
  BY <1>1 DEF ListWF, ListPush, ListHeapUsed
<1>2. CASE ~(l.chonk = <<>> /\ Fits32(x))
  BY <1>2 DEF ListWF, ListPush, ListHeapUsed
<1>3. QED
  BY <1>1, <1>2

---------------------------------------------------------------------------
\* IndexOptimized: a stride and a spill list; the stride is frozen once anything has spilled
OptWF(ic) == /\ ic \in [k : {"opt"}, st : [tag : {"E", "Z", "S", "T"}, s : Nat, c : Nat, r : Nat],
                        sp : [smol : Seq(Nat), chonk : Seq(Nat)]]
             /\ StrideWF(ic.st)
             /\ ListWF(ic.sp)

\* C19, optimised container: a value the stride absorbs costs nothing; any other value costs what the list charges
THEOREM OptPushCost ==
  ASSUME NEW ic, NEW x \in Nat, OptWF(ic)
  PROVE  ICHeapUsed(ICPush(ic, x), 8) =
           IF ListLen(ic.sp) = 0 /\ StridePush(ic.st, x).ok
           THEN ICHeapUsed(ic, 8)
           ELSE ICHeapUsed(ic, 8) + (IF ic.sp.chonk = <<>> /\ Fits32(x) THEN 4 ELSE 8)
<1>1. CASE ListLen(ic.sp) = 0 /\ StridePush(ic.st, x).ok
  BY <1>1 DEF OptWF, ICPush, ICHeapUsed
<1>2. CASE ~(ListLen(ic.sp) = 0 /\ StridePush(ic.st, x).ok)
  <2>1. ICPush(ic, x) = [ic EXCEPT !.sp = ListPush(ic.sp, x)]
    BY <1>2 DEF OptWF, ICPush
  <2>2. ListHeapUsed(ListPush(ic.sp, x)) = ListHeapUsed(ic.sp) + (IF ic.sp.chonk = <<>> /\ Fits32(x) THEN 4 ELSE 8)
    BY ListPushCost DEF OptWF
  <2>3. QED
    BY <1>2, <2>1, <2>2 DEF OptWF, ICHeapUsed
<1>3. QED
  BY <1>1, <1>2

\* C05 / C02, optimised container: length + 1, the value at the new position, earlier positions untouched
THEOREM OptPushIndex ==
  ASSUME NEW ic, NEW x \in Nat, OptWF(ic)
  PROVE  /\ ICLen(ICPush(ic, x)) = ICLen(ic) + 1
         /\ ICIndexAt(ICPush(ic, x), ICLen(ic)) = x
         /\ \A i \in 0..(ICLen(ic) - 1) : ICIndexAt(ICPush(ic, x), i) = ICIndexAt(ic, i)
<1>0. StrideLen(ic.st) \in Nat /\ ListLen(ic.sp) \in Nat
  BY DEF OptWF, StrideWF, ListWF, StrideLen, ListLen
<1>1. CASE ListLen(ic.sp) = 0 /\ StridePush(ic.st, x).ok
  <2>1. ICPush(ic, x) = [ic EXCEPT !.st = StridePush(ic.st, x).st]
    BY <1>1 DEF OptWF, ICPush
  <2>2. /\ StrideLen(StridePush(ic.st, x).st) = StrideLen(ic.st) + 1
        /\ StrideIndex(StridePush(ic.st, x).st, StrideLen(ic.st)) = x
        /\ \A i \in 0..(StrideLen(ic.st) - 1) : StrideIndex(StridePush(ic.st, x).st, i) = StrideIndex(ic.st, i)
    BY <1>1, AcceptAppends DEF OptWF
  <2>3. QED
    BY <1>0, <1>1, <2>1, <2>2 DEF OptWF, ICLen, ICIndexAt
<1>2. CASE ~(ListLen(ic.sp) = 0 /\ StridePush(ic.st, x).ok)
  <2>1. ICPush(ic, x) = [ic EXCEPT !.sp = ListPush(ic.sp, x)]
    BY <1>2 DEF OptWF, ICPush
  <2>2. /\ ListLen(ListPush(ic.sp, x)) = ListLen(ic.sp) + 1
        /\ ListIndexAt(ListPush(ic.sp, x), ListLen(ic.sp)) = x
        /\ \A i \in 0..(ListLen(ic.sp) - 1) : ListIndexAt(ListPush(ic.sp, x), i) = ListIndexAt(ic.sp, i)
    BY ListPushLen, ListPushIndex DEF OptWF
  <2>3. QED
    BY <1>0, <2>1, <2>2 DEF OptWF, ICLen, ICIndexAt
<1>3. QED
  BY <1>1, <1>2

\* the stride is never touched again once a value has spilled (FrozenParts of ICMC, unbounded)
THEOREM OptStrideFrozen ==
  ASSUME NEW ic, NEW x \in Nat, OptWF(ic), ListLen(ic.sp) > 0
  PROVE  ICPush(ic, x).st = ic.st
  BY DEF OptWF, ICPush

\* Vec: trivially the pushed sequence
THEOREM VecPush ==
  ASSUME NEW ic, NEW x \in Nat, ic \in [k : {"vec"}, xs : Seq(Nat)]
  PROVE  /\ ICLen(ICPush(ic, x)) = ICLen(ic) + 1
         /\ ICDenote(ICPush(ic, x)) = Append(ICDenote(ic), x)
         /\ ICHeapUsed(ICPush(ic, x), 8) = ICHeapUsed(ic, 8) + 8
  BY DEF ICPush, ICLen, ICDenote, ICHeapUsed
=============================================================================
