----------------------------- MODULE MisraGries -----------------------------
(***************************************************************************)
(* The heavy-hitter summary behind DictionaryCodec's statistics            *)
(* (`flatcontainer::impls::codec::MisraGries`, public API: with_capacity,  *)
(* insert, update, done), written as the code writes it:                   *)
(*   update  appends (element, count); when the list reaches its capacity  *)
(*           it is tidied                                                  *)
(*   tidy    consolidate (sum equal elements), sort by count descending;   *)
(*           with k = capacity / 2, if more than k entries remain: keep k, *)
(*           subtract (count of entry k+1) - 1 from each, drop zero counts *)
(*   done    consolidate and sort by count descending                      *)
(* The contract that DictionaryCodec relies on (and that TraceDict uses    *)
(* beyond the exact regime) is stated as invariants of a bounded model:    *)
(* estimates never exceed true counts, the total under-estimate of an      *)
(* element is bounded by the weight removed, and an element that dominates *)
(* the input is always reported first.                                     *)
(***************************************************************************)
EXTENDS Naturals, Sequences, FiniteSets, SequencesExt, FiniteSetsExt, TLC

CONSTANTS Elems, Cap, MaxN

VARIABLES inner,   \* the summary list, as the implementation holds it: Seq([k, w])
          truth,   \* ghost: exact counts
          n        \* ghost: number of unit insertions so far
vars == <<inner, truth, n>>

K == Cap \div 2

Keys(s) == {s[i].k : i \in 1..Len(s)}
WeightOf(s, e) == LET idx == {i \in 1..Len(s) : s[i].k = e}
                  IN  IF idx = {} THEN 0 ELSE SumSet({i \in idx : TRUE}) * 0 + FoldSet(LAMBDA i, acc : acc + s[i].w, 0, idx)

\* consolidate: one entry per element with the summed count, zero sums dropped, sorted by element
Consolidate(s) ==
  LET ks == SortSeq(SetToSeq(Keys(s)), LAMBDA a, b : a < b)
      all == [i \in 1..Len(ks) |-> [k |-> ks[i], w |-> WeightOf(s, ks[i])]]
  IN  SelectSeq(all, LAMBDA x : x.w # 0)

\* stable sort by count descending: ties stay in element order
ByCount(s) == SortSeq(s, LAMBDA a, b : a.w > b.w \/ (a.w = b.w /\ a.k < b.k))

RECURSIVE DropZeros(_)
DropZeros(s) == IF s # <<>> /\ s[Len(s)].w = 0 THEN DropZeros(SubSeq(s, 1, Len(s) - 1)) ELSE s

Tidy(s) ==
  LET c == ByCount(Consolidate(s))
  IN  IF Len(c) > K
      THEN LET sub == c[K + 1].w - 1
           IN  DropZeros([i \in 1..K |-> [k |-> c[i].k, w |-> c[i].w - sub]])
      ELSE c

Update(s, e, cnt) == LET a == Append(s, [k |-> e, w |-> cnt])
                     IN  IF Len(a) = Cap THEN Tidy(a) ELSE a

Done(s) == ByCount(Consolidate(s))

---------------------------------------------------------------------------
Init == inner = <<>> /\ truth = [e \in Elems |-> 0] /\ n = 0

Insert(e) == /\ n < MaxN
             /\ inner' = Update(inner, e, 1)
             /\ truth' = [truth EXCEPT ![e] = @ + 1]
             /\ n' = n + 1

Next == \E e \in Elems : Insert(e)
Spec == Init /\ [][Next]_vars

Est(e) == WeightOf(Done(inner), e)

\* the summary never invents weight
NeverOverestimates == \A e \in Elems : Est(e) <= truth[e]
\* the list never exceeds its capacity
Bounded == Len(inner) < Cap
\* What is lost is bounded.  A tidy with subtrahend `sub` takes `sub` from each of the K kept entries
\* and drops every other entry, the largest of which holds sub + 1: an element loses at most sub + 1
\* while at least (K + 1) * sub + 1 is removed in total.  (TLC refutes the textbook bound n / (K + 1):
\* the dropped entry loses one unit more than the kept ones.)  Tidies are at least K insertions
\* apart, hence
Loss == (n \div (K + 1)) + (n \div K)
LossBounded == \A e \in Elems : truth[e] - Est(e) <= Loss
\* therefore an element that outweighs all others by more than the possible loss is reported first
DominantFirst == \A e \in Elems :
                   2 * truth[e] > n + Loss =>
                     /\ Done(inner) # <<>>
                     /\ Done(inner)[1].k = e
=============================================================================
