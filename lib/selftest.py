"""Anti-vacuity self-tests (./check --selftest).

(1) SPEC MUTANTS: each entry plants one plausible mistake into a copy of a specification module and
    requires TLC to report the named invariant / property as violated on a small configuration. An
    invariant that no mutant can violate would be vacuous.
(2) BINDING: a good recorded trace with one corrupted field must be rejected by the trace specification,
    and an edge whose expectation was falsified must be reported by the replay.
Failures here are tool errors (exit 2), never VIOLATION lines.
"""
import os, re, json, shutil, subprocess, sys, time
from checklib import *   # noqa

MUTANTS = [
    # (name, module file, (old, new), TLC module, constants, invariants, properties, expected)
    ("cip-without-leading-zero", "Regions.tla",
     ('offs |-> IC!ICPush(IC!ICInit(sh.ic), 0),   \\* "always stores element 0"', "offs |-> IC!ICInit(sh.ic),"),
     "RegionsMC.tla", {"SubjectNames": {"cip_str_opt"}}, ["RoundTrip", "Shaped"], [], {"RoundTrip", "Shaped"}),
    ("collapse-clear-keeps-last", "Regions.tla",
     ('[] sh.k = "collapse" -> [inner |-> ClearR(sh.inner, st.inner), last |-> None]',
      '[] sh.k = "collapse" -> [inner |-> ClearR(sh.inner, st.inner), last |-> st.last]'),
     "RegionsMC.tla", {"SubjectNames": {"collapse_cip_str"}}, ["ClearFresh"], [], {"ClearFresh"}),
    ("collapse-merge-inherits-last", "Regions.tla",
     ("last |-> None]          \\* the sources' last item is NOT inherited",
      "last |-> IF srcs = <<>> THEN None ELSE srcs[1].last]"),
     "RegionsMC.tla", {"SubjectNames": {"collapse_cip_str"}, "NSlots": 2, "Ops": {"push", "merge"}, "MaxGhost": 1},
     ["MergeFresh"], [], {"MergeFresh"}),
    ("owned-read-shifted", "Regions.tla",
     ('CASE sh.k = "owned"    -> SubSeq(st.data, idx[1] + 1, idx[2])', 'CASE sh.k = "owned"    -> SubSeq(st.data, idx[1] + 2, idx[2] + 1)'),
     "RegionsMC.tla", {"SubjectNames": {"string"}}, ["RoundTrip", "StringsValid"], [], {"RoundTrip", "StringsValid"}),
    ("get-accepts-len", "RegionsMC.tla",
     ("THEN IF pos < idx[2] - idx[1]", "THEN IF pos <= idx[2] - idx[1]"),
     "RegionsMC.tla", {"SubjectNames": {"slice_mirror_u8"}}, ["GetExact"], [], {"GetExact"}),
    ("columns-row-shares-cells", "Regions.tla",
     ("r     == PushCols(sh.inner, grown, v, 1, <<>>)", "r     == PushCols(sh.inner, grown, IF Len(v) > 1 THEN Tail(v) ELSE v, 1, <<>>)"),
     "RegionsMC.tla", {"SubjectNames": {"cols_mirror_u8"}}, ["RoundTrip"], [], {"RoundTrip"}),
    ("cip-index-not-dense", "Regions.tla",
     ("idx |-> IC!ICLen(offs) - 2]", "idx |-> IC!ICLen(offs) - 1]"),
     "RegionsMC.tla", {"SubjectNames": {"cip_str_vec"}}, ["Dense"], [], {"Dense"}),
    ("push-disturbs-earlier-item", "Regions.tla",
     ('IN  [st |-> [data |-> st.data \\o v], idx |-> <<s, s + Len(v)>>]', 'IN  [st |-> [data |-> v \\o st.data], idx |-> <<0, Len(v)>>]'),
     "RegionsMC.tla", {"SubjectNames": {"owned_u8"}}, [], ["AppendOnly"], {"AppendOnly"}),
    ("indexlist-returns-to-smol", "IndexCore.tla",
     ("IF l.chonk = <<>> /\\ Fits32(x)", "IF Fits32(x)"),
     "ICMC.tla", {"Kinds": {"list"}}, ["Faithful"], [], {"Faithful"}),
    ("optimized-retries-stride", "IndexCore.tla",
     ("IF ListLen(ic.sp) = 0\n         THEN LET r == StridePush(ic.st, x)", "IF TRUE\n         THEN LET r == StridePush(ic.st, x)"),
     "ICMC.tla", {"Kinds": {"opt"}}, ["Faithful"], [], {"Faithful"}),
    ("stride-accepts-any-repeat", "StrideCore.tla",
     ("ELSE IF Mul(st.s, st.c - 1) = x\n              THEN [ok |-> TRUE, st |-> [st EXCEPT !.tag = \"T\", !.r = 1]]",
      "ELSE IF TRUE\n              THEN [ok |-> TRUE, st |-> [st EXCEPT !.tag = \"T\", !.r = 1]]"),
     "ICMC.tla", {"Kinds": {"stride"}}, ["Faithful", "StrideExact"], [], {"Faithful", "StrideExact"}),
    ("list-charges-4-bytes-always", "IndexCore.tla",
     ("ListHeapUsed(l) == 4 * Len(l.smol) + 8 * Len(l.chonk)", "ListHeapUsed(l) == 4 * Len(l.smol) + 4 * Len(l.chonk)"),
     "ICMC.tla", {"Kinds": {"list"}}, ["CostRule"], [], {"CostRule"}),
    ("dictionary-never-refuses", "Dictionary.tla",
     ("IF Ambiguous(sl, s) THEN [sl EXCEPT !.poisoned = TRUE]\n  ELSE LET", "IF FALSE THEN [sl EXCEPT !.poisoned = TRUE]\n  ELSE LET"),
     "DictMC.tla", {}, ["RoundTrip", "RefuseExact"], [], {"RoundTrip", "RefuseExact"}),
    ("huffman-cursor-counts-symbols", "Huffman.tla",
     ("!.cursor = @ + Bits(sl, v),", "!.cursor = @ + Len(v),"),
     "HuffmanMC.tla", {}, ["Tiling"], [], {"Tiling"}),
    ("flatstack-extend-drops-last", "FlatStackMC.tla",
     ("Extend(vs, hint) == /\\ st' = CopyAll(st, vs)", "Extend(vs, hint) == /\\ st' = CopyAll(st, IF Len(vs) > 1 THEN SubSeq(vs, 1, Len(vs) - 1) ELSE vs)"),
     "FlatStackMC.tla", {"SubjectNames": {"fs_string"}}, ["Denote", "LenOK"], [], {"Denote", "LenOK"}),
]

BASE = {
    "RegionsMC.tla": {"SubjectNames": {"string"}, "NSlots": 1, "MaxOps": 3, "MaxGhost": 0, "DomSize": 3, "Ops": {"push", "clear"},
                      "Queries": {"none"}, "EquivDepth": 1, "Emit": False, "U32Limit": 2147483647},
    "ICMC.tla": {"Kinds": {"opt"}, "AlphaSel": "full", "MaxOps": 4, "MaxGhost": 0, "ExtendOn": False, "Emit": False},
    "DictMC.tla": {"NSlots": 2, "MaxGen0": 2, "MaxMerge": 1, "MaxCoded": 1, "MaxClear": 0, "MaxReserve": 0, "StrSel": "quick", "Emit": False},
    "HuffmanMC.tla": {"NSlots": 2, "MaxRaw": 1, "MaxMerge": 1, "MaxCoded": 2, "MaxClear": 0, "ItemSel": "quick", "MaxCodeLen": 5, "Emit": False},
    "FlatStackMC.tla": {"SubjectNames": {"fs_string"}, "MaxOps": 3, "MaxGhost": 0, "DomSize": 3, "Ops": {"copy", "extend", "clear"},
                        "Emit": False, "U32Limit": 2147483647},
}
ACTION = {"RegionsMC.tla": "EmitEdge", "ICMC.tla": "EmitEdge", "FlatStackMC.tla": "EmitEdge", "DictMC.tla": "EmitScenario",
          "HuffmanMC.tla": "EmitScenario"}


def run_mutants(only=None):
    root = os.path.join(WORK, "selftest")
    shutil.rmtree(root, ignore_errors=True)
    failures = []
    t0 = time.time()
    for (name, fname, (old, new), module, consts, invs, props, expected) in MUTANTS:
        if only and name not in only:
            continue
        d = os.path.join(root, name)
        shutil.copytree(SPEC, d)
        p = os.path.join(d, fname)
        src = open(p).read()
        if old not in src:
            failures.append("%s: pattern not found in %s (the specification changed; update lib/selftest.py)" % (name, fname))
            continue
        open(p, "w").write(src.replace(old, new, 1))
        c = dict(BASE[module])
        c.update(consts)
        cfg = os.path.join(d, "mutant.cfg")
        write_cfg(cfg, c, invs, props, action_constraint=ACTION[module])
        outp = os.path.join(d, "tlc.out")
        cmd = ["java", "-Xss64m", "-XX:+UseG1GC", "-Xmx4g", "-cp", JAR, "tlc2.TLC", "-workers", "4", "-metadir",
               os.path.join(d, "meta"), "-cleanup", "-noGenerateSpecTE", "-config", cfg, module]
        with open(outp, "w") as f:
            try:
                subprocess.run(cmd, cwd=d, stdout=f, stderr=subprocess.STDOUT, timeout=600)
            except subprocess.TimeoutExpired:
                failures.append("%s: TLC timeout" % name)
                continue
        text = open(outp, errors="replace").read()
        got = set(re.findall(r"Invariant (\w+) is violated", text)) | set(re.findall(r"property (\w+) is violated", text))
        # a planted mistake may also make the specification ill-defined (reading outside a sequence):
        # TLC then stops with an evaluation error while checking the same invariants - also a detection
        eval_error = bool(re.search(r"^Error: ", text, re.M)) and "Parsing or semantic analysis failed" not in text \
            and "Starting..." in text
        if not (got & expected) and eval_error:
            log("  mutant %-32s -> TLC evaluation error while checking %s (ok)" % (name, ", ".join(invs + props)))
        elif not (got & expected):
            tail = "\n".join(text.splitlines()[-12:])
            failures.append("%s: expected one of %s to be violated, TLC reported %s\n%s" % (name, sorted(expected), sorted(got), tail))
        else:
            log("  mutant %-32s -> %s violated (ok)" % (name, ", ".join(sorted(got & expected))))
        shutil.rmtree(d, ignore_errors=True)
    log("spec mutants: %d run, %d failures, %.0fs" % (len(MUTANTS) if not only else len(only), len(failures), time.time() - t0))
    return failures


def run_binding():
    """corrupt a good trace / a good edge and require the machinery to notice"""
    failures = []
    wd = os.path.join(WORK, "selftest-binding")
    shutil.rmtree(wd, ignore_errors=True)
    os.makedirs(wd)
    # (a) Huffman trace: flip one symbol of one read, drop one merge event
    scn = os.path.join(wd, "s.scn")
    ops = [{"op": "push", "s": 1, "v": [1, 1, 2, 3]}, {"op": "merge", "d": 2, "srcs": [1]},
           {"op": "push", "s": 2, "v": [1, 2, 3]}, {"op": "push", "s": 2, "v": [3, 3, 1]}]
    open(scn, "w").write(json.dumps({"ops": ops, "nslots": 2}) + "\n")
    tr = os.path.join(wd, "good.ndjson")
    rc, o = sh([BIN["dev"], "huff-run", scn, "--ty", "u8", "--out", tr, "--nslots", "2"])
    if rc != 0:
        return ["huff-run failed in self-test: " + o[-500:]]
    events = [json.loads(l) for l in open(tr)]

    def validate(evts, label):
        p = os.path.join(wd, label + ".ndjson")
        open(p, "w").write("\n".join(json.dumps(e) for e in evts) + "\n")
        outp = os.path.join(wd, label + ".out")
        e = dict(os.environ, TRACE=p)
        with open(outp, "w") as f:
            subprocess.run(["java", "-Xss256m", "-cp", JAR, "tlc2.TLC", "-workers", "1", "-metadir", os.path.join(wd, "meta"),
                            "-cleanup", "-noGenerateSpecTE", "-config", os.path.join(SPEC, "TraceHuffman.cfg"), "TraceHuffman.tla"],
                           cwd=SPEC, stdout=f, stderr=subprocess.STDOUT, env=e, timeout=300)
        text = open(outp).read()
        return len(re.findall(r'^<<"ERR"', text, re.M)), '<<"DONE"' in text

    n, done = validate(events, "good")
    if n != 0 or not done:
        failures.append("binding: the unmodified Huffman trace is not accepted (%d rejections, done=%s)" % (n, done))
    bad = json.loads(json.dumps(events))
    for e in bad:
        if e["ev"] == "push" and e["s"] == 2:
            e["read"] = e["read"][:-1] + [e["read"][-1] + 1]
            break
    n, done = validate(bad, "flipped-read")
    if n == 0:
        failures.append("binding: a trace with a corrupted read was accepted by TraceHuffman")
    bad = [e for e in events if e["ev"] != "merge"]
    n, done = validate(bad, "dropped-merge")
    if n == 0:
        failures.append("binding: a trace with the merge event removed was accepted by TraceHuffman")
    bad = json.loads(json.dumps(events))
    for e in bad:
        if e["ev"] == "merge":
            e["lens"] = [[s, l + 1] for s, l in e["lens"]]
    n, done = validate(bad, "longer-codes")
    if n == 0:
        failures.append("binding: a trace whose logged code lengths are not optimal was accepted by TraceHuffman")
    log("  binding: corrupted Huffman traces are rejected (ok)" if not failures else "  binding: FAILED")
    # (b) an edge with a falsified expectation must be reported by the replay
    edge = {"subj": "string", "path": [{"op": "push", "s": 1, "f": 0, "v": [97]}], "res": {"idx": [0, 1]},
            "obs": [{"idx": [[0, 1]], "reads": [[98]], "used": 1, "lb": 1}]}
    ef = os.path.join(wd, "edge.ndjson")
    open(ef, "w").write(json.dumps(edge) + "\n")
    res = os.path.join(wd, "edge.json")
    rc, o = sh([BIN["dev"], "replay", ef, "--prop", "C01", "--out", res])
    if rc != 0 or json.load(open(res))["violation_count"] != 1:
        failures.append("binding: an edge with a falsified expectation was not reported by the replay")
    else:
        log("  binding: falsified edge expectation is reported (ok)")
    # (c) a long walk of the index containers: accepted as recorded; rejected with one probe answer, one heap
    #     figure or one iterator window falsified
    tr = os.path.join(wd, "walk.ndjson")
    rc, o = sh([BIN["dev"], "ic-walk", "--seed", "9", "--runs", "6", "--len", "600", "--out", tr])
    if rc != 0:
        failures.append("ic-walk failed in self-test: " + o[-300:])
    else:
        events = [json.loads(l) for l in open(tr)]

        def validate_ic(evts, label):
            p = os.path.join(wd, label + ".ndjson")
            open(p, "w").write("\n".join(json.dumps(e) for e in evts) + "\n")
            outp = os.path.join(wd, label + ".out")
            with open(outp, "w") as f:
                subprocess.run(["java", "-Xss256m", "-cp", JAR, "tlc2.TLC", "-workers", "1", "-metadir", os.path.join(wd, "meta"),
                                "-cleanup", "-noGenerateSpecTE", "-config", os.path.join(SPEC, "TraceIC.cfg"), "TraceIC.tla"],
                               cwd=SPEC, stdout=f, stderr=subprocess.STDOUT, env=dict(os.environ, TRACE=p), timeout=300)
            text = open(outp).read()
            return set(re.findall(r'why\\":\\"([a-z-]+)', text)), '<<"DONE"' in text

        whys, done = validate_ic(events, "walk-good")
        if whys or not done:
            failures.append("binding: the unmodified index walk is not accepted (%s, done=%s)" % (whys, done))
        for label, pick, mutate, want in [
            ("walk-probe", lambda e: e["ev"] == "probe", lambda e: e["v"].__setitem__(0, (e["v"][0] + 1) % 65536), "index-differs"),
            ("walk-used", lambda e: e["ev"] == "push" and e.get("obs") and e.get("used", 0) > 0,
             lambda e: e.__setitem__("used", e["used"] + 4), "heap-bytes-differ-from-documented-cost"),
            ("walk-iter", lambda e: e["ev"] == "iter" and len(e["vs"]) > 1,
             lambda e: e["vs"][0].__setitem__(0, (e["vs"][0][0] + 1) % 65536), "iteration-differs"),
        ]:
            bad = json.loads(json.dumps(events))
            hit = [e for e in bad if pick(e)]
            if not hit:
                failures.append("binding: the self-test walk has no event for " + label)
                continue
            mutate(hit[len(hit) // 2])
            whys, done = validate_ic(bad, label)
            if want not in whys:
                failures.append("binding: %s was accepted by TraceIC (%s)" % (label, whys))
        log("  binding: falsified index-walk answers are rejected (ok)" if not [f for f in failures if "walk" in f] else "  binding: index walk FAILED")
    shutil.rmtree(wd, ignore_errors=True)
    return failures


def main_selftest(quick=False):
    build_harness()
    fails = run_binding()
    fails += run_mutants(only={"cip-without-leading-zero", "indexlist-returns-to-smol", "dictionary-never-refuses",
                               "huffman-cursor-counts-symbols", "get-accepts-len"} if quick else None)
    if fails:
        for f in fails:
            log("SELFTEST-FAILURE: " + f)
        die_tool("anti-vacuity self-tests failed")
    log("self-tests ok")
