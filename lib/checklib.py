"""Driver library for ./check (python3, stdlib only)."""
import sys, os, json, subprocess, time, re, fcntl, fnmatch, shutil, glob

VERIF = os.path.dirname(os.path.dirname(os.path.abspath(__file__)))
SPEC = os.path.join(VERIF, "spec")
HARNESS = os.path.join(VERIF, "harness")
WORK = os.path.join(VERIF, "work")
EVID = os.path.join(VERIF, "evidence")
REPLAYS = os.path.join(VERIF, "replays")
JAR = "/opt/veriftools/tla/tla2tools.jar:/opt/veriftools/tla/CommunityModules-deps.jar"
# The repository under test. Registered checks always use /repo; FC_REPO lets a background run
# (`vp run --with-repo`, a scratch worktree) exercise a snapshot with its own copy of the harness.
REPO = os.environ.get("FC_REPO", "/repo")
if REPO != "/repo":
    import hashlib
    _tag = hashlib.sha1(REPO.encode()).hexdigest()[:10]
    WORK = os.path.join(WORK, "alt-" + _tag)
    HARNESS_SRC = HARNESS
    HARNESS = os.path.join(WORK, "harness")
    EVID = os.path.join(WORK, "evidence")      # never the registered evidence directory
    REPLAYS = os.path.join(WORK, "replays")
BIN = {"dev": os.path.join(HARNESS, "target/debug/fcverif"),
       "release": os.path.join(HARNESS, "target/release/fcverif")}


class ToolError(Exception):
    pass


def log(*a):
    print(*a, flush=True)


def die_tool(msg):
    log("TOOL-ERROR:", msg)
    sys.exit(2)


def sh(cmd, cwd=None, timeout=None, env=None, capture=True):
    e = dict(os.environ)
    e["CARGO_NET_OFFLINE"] = "true"
    if env:
        e.update(env)
    try:
        p = subprocess.run(cmd, cwd=cwd, timeout=timeout, env=e, stdout=subprocess.PIPE if capture else None,
                           stderr=subprocess.STDOUT if capture else None, text=True)
    except subprocess.TimeoutExpired:
        raise ToolError("timeout after %ss: %s" % (timeout, " ".join(cmd)[:200]))
    return p.returncode, (p.stdout or "")


def sh_all(cmds, timeout=None, what="generator"):
    """run independent recorder processes side by side (one per build profile / flavour)"""
    e = dict(os.environ)
    e["CARGO_NET_OFFLINE"] = "true"
    ps = [subprocess.Popen(c, env=e, stdout=subprocess.DEVNULL, stderr=subprocess.PIPE, text=True) for c in cmds]
    for c, p in zip(cmds, ps):
        try:
            _, err = p.communicate(timeout=timeout)
        except subprocess.TimeoutExpired:
            for q_ in ps:
                q_.kill()
            raise ToolError("timeout after %ss: %s" % (timeout, " ".join(c)[:200]))
        if p.returncode != 0:
            log((err or "")[-2000:])
            raise ToolError("%s failed: %s" % (what, " ".join(c)[:200]))


# --------------------------------------------------------------------------------------------
# build

def build_harness():
    """Builds the harness from /repo's current working tree, both profiles, under a lock."""
    os.makedirs(WORK, exist_ok=True)
    lockf = open(os.path.join(WORK, "build.lock"), "w")
    fcntl.flock(lockf, fcntl.LOCK_EX)
    try:
        if REPO != "/repo":
            # private copy of the harness sources pointing at the snapshot
            sh(["rsync", "-a", "--delete", "--exclude", "target", HARNESS_SRC + "/", HARNESS + "/"])
            ct = open(os.path.join(HARNESS, "Cargo.toml")).read().replace('path = "/repo"', 'path = "%s"' % REPO)
            open(os.path.join(HARNESS, "Cargo.toml"), "w").write(ct)
        if not os.path.exists(os.path.join(HARNESS, "Cargo.lock")):
            shutil.copy(os.path.join(REPO, "Cargo.lock"), os.path.join(HARNESS, "Cargo.lock"))
        for prof, args in (("dev", []), ("release", ["--release"])):
            rc, out = sh(["cargo", "build", "--offline", "-q"] + args, cwd=HARNESS, timeout=1500)
            if rc != 0:
                # a tree that does not compile is a tool error, not a property violation
                log(out[-4000:])
                raise ToolError("harness build failed (%s profile)" % prof)
    finally:
        fcntl.flock(lockf, fcntl.LOCK_UN)
        lockf.close()


def check_catalogue():
    rc, out = sh([BIN["dev"], "catalogue"])
    if rc != 0:
        raise ToolError("harness catalogue failed")
    committed = open(os.path.join(SPEC, "catalogue.json")).read()
    if json.loads(out) != json.loads(committed):
        raise ToolError("spec/catalogue.json disagrees with the harness's typed catalogue; regenerate with "
                        "`harness/target/debug/fcverif catalogue > spec/catalogue.json`")
    return json.loads(committed)


# --------------------------------------------------------------------------------------------
# TLC

def cfg_value(v):
    if isinstance(v, bool):
        return "TRUE" if v else "FALSE"
    if isinstance(v, int):
        return str(v)
    if isinstance(v, str):
        return '"%s"' % v
    if isinstance(v, (set, frozenset, list, tuple)):
        return "{" + ", ".join(cfg_value(x) for x in sorted(v)) + "}"
    raise ValueError(v)


def write_cfg(path, constants, invariants=(), properties=(), view="View", action_constraint="EmitEdge",
              spec="Spec", constraint=None, postcondition=None):
    lines = ["SPECIFICATION " + spec, "CONSTANTS"]
    for k, v in constants.items():
        lines.append("  %s = %s" % (k, cfg_value(v)))
    if view:
        lines.append("VIEW " + view)
    if constraint:
        lines.append("CONSTRAINT " + constraint)
    if action_constraint:
        lines.append("ACTION_CONSTRAINT " + action_constraint)
    if invariants:
        lines.append("INVARIANTS " + " ".join(invariants))
    if properties:
        lines.append("PROPERTIES " + " ".join(properties))
    if postcondition:
        lines.append("POSTCONDITION " + postcondition)
    lines.append("CHECK_DEADLOCK FALSE")
    open(path, "w").write("\n".join(lines) + "\n")


TLC_STATS = re.compile(r"(\d[\d,]*) states generated, (\d[\d,]*) distinct states found")


def run_tlc(module, cfg, outfile, metadir, workers=12, timeout=1800, heap="8g", extra=(), env=None, stack="64m",
            java_opts=()):
    """Runs TLC with cwd=spec/. Returns dict(states, distinct, seconds). TLC-reported errors raise ToolError
    unless `allow_violation`."""
    cmd = ["java", "-Xss" + stack, "-XX:+UseG1GC", "-Xmx" + heap] + list(java_opts) + ["-cp", JAR, "tlc2.TLC",
           "-workers", str(workers), "-metadir", metadir, "-cleanup", "-noGenerateSpecTE", "-config", cfg] + list(extra) + [module]
    t0 = time.time()
    e = dict(os.environ)
    if env:
        e.update(env)
    with open(outfile, "w") as f:
        try:
            p = subprocess.run(cmd, cwd=SPEC, stdout=f, stderr=subprocess.STDOUT, timeout=timeout, env=e)
        except subprocess.TimeoutExpired:
            raise ToolError("TLC timeout (%ss) on %s" % (timeout, module))
    dt = time.time() - t0
    states = distinct = 0
    tail = []
    ok = False
    with open(outfile, errors="replace") as f:
        for line in f:
            if line.startswith("<<\"EDGE\"") or line.startswith("<<\"SCN\""):
                continue
            tail.append(line)
            if len(tail) > 60:
                tail.pop(0)
            m = TLC_STATS.search(line)
            if m:
                states = int(m.group(1).replace(",", ""))
                distinct = int(m.group(2).replace(",", ""))
            if "Model checking completed. No error has been found." in line:
                ok = True
    shutil.rmtree(metadir, ignore_errors=True)
    return {"ok": ok and p.returncode == 0, "rc": p.returncode, "states": states, "distinct": distinct,
            "seconds": round(dt, 1), "tail": "".join(tail)}


# --------------------------------------------------------------------------------------------
# known findings, replay files, evidence

def load_known():
    p = os.path.join(VERIF, "known_findings.json")
    if not os.path.exists(p):
        return []
    return json.load(open(p))


class Outcome:
    def __init__(self, prop, tier, seed):
        self.prop, self.tier, self.seed = prop, tier, seed
        self.violations = []   # dicts with sig
        self.known_hits = {}
        self.states = 0
        self.transitions = 0
        self.validated = 0
        self.judged = 0
        self.samples = []
        self.stages = []
        self.assumptions = []
        self.t0 = time.time()
        self.replay_n = 0
        self.sampled = []      # names of stages whose traces come from a seeded random recorder (not an enumeration)

    def add_violation(self, v, stage, profile, kind):
        known = [k for k in load_known() if k.get("property") == self.prop and k.get("kind") == "known"]
        sig = v.get("sig", "")
        for k in known:
            if fnmatch.fnmatch(sig, k["key"]):
                self.known_hits.setdefault(k["key"], k)
                return
        self.violations.append(dict(v, stage=stage, profile=profile, replay_kind=kind))

    def finish(self, level="model_checking", rule=None, extra_cov=None):
        os.makedirs(EVID, exist_ok=True)
        os.makedirs(REPLAYS, exist_ok=True)
        for key, k in self.known_hits.items():
            log("KNOWN-FINDING: property=%s %s (%s)" % (self.prop, key, k.get("what", "")))
        paths = []
        seen = set()
        for v in self.violations:
            if v.get("sig") in seen and len(paths) >= 3:
                continue
            seen.add(v.get("sig"))
            if len(paths) >= 10:
                break
            self.replay_n += 1
            p = os.path.join(REPLAYS, "%s-%d.json" % (self.prop, self.replay_n))
            json.dump({"property": self.prop, "tier": self.tier, "seed": self.seed, **v}, open(p, "w"), indent=1)
            paths.append(p)
            log("VIOLATION property=%s replay=%s" % (self.prop, p))
            log("   signature: %s | profile: %s | stage: %s" % (v.get("sig"), v.get("profile"), v.get("stage")))
        cov = {
            "states": max(self.states, 0),
            "transitions": max(self.transitions, 0),
            "traces_validated_against_impl": self.validated,
            "samples": self.samples[:4] if self.samples else [{"note": "no sample recorded"}],
            # the bounded models are enumerated completely by TLC, and every enumerated transition / scenario is executed
            # on the code; stages fed by a seeded random recorder are samples, and then the run as a whole is not
            "exhaustive": not self.sampled,
            "model_stages_exhaustive": True,
            "sampled_stages": sorted(set(self.sampled)),
            "rule": (rule or "TLC enumerates every history of the bounded model (constants per stage below); "
                     "each transition is replayed on the real code in both build profiles") +
                    ("; the stages listed under sampled_stages validate traces recorded from seeded random histories "
                     "(VERIF_SEED) against the trace specifications - samples, not an enumeration" if self.sampled else ""),
            "judged_cases": self.judged,
            "stages": self.stages,
        }
        if extra_cov:
            cov.update(extra_cov)
        ev = {"property_id": self.prop, "tier": self.tier, "seed": self.seed, "level": level, "coverage": cov,
              "assumptions": self.assumptions, "wall_s": round(time.time() - self.t0, 1),
              "violations": len(self.violations)}
        json.dump(ev, open(os.path.join(EVID, self.prop + ".json"), "w"), indent=1)
        if self.violations:
            sys.exit(1)
        log("OK property=%s tier=%s states=%d transitions=%d validated=%d wall=%.0fs" %
            (self.prop, self.tier, self.states, self.transitions, self.validated, time.time() - self.t0))
        sys.exit(0)


# --------------------------------------------------------------------------------------------
# stages

def stage_edges(out, name, module, constants, invariants, properties, replay_cmd, prop, workers=12, timeout=1800,
                profiles=("dev", "release"), min_judged=1, replay=True):
    """TLC model check + edge emission, then replay of all edges in each profile."""
    wd = os.path.join(WORK, out.prop)
    os.makedirs(wd, exist_ok=True)
    cfg = os.path.join(wd, name + ".cfg")
    write_cfg(cfg, constants, invariants, properties)
    edges = os.path.join(wd, name + ".edges")
    r = run_tlc(module, cfg, edges, os.path.join(wd, name + ".meta"), workers=workers, timeout=timeout)
    if not r["ok"]:
        log(r["tail"][-3000:])
        raise ToolError("TLC did not complete cleanly on %s/%s (the model is part of the tooling: a failing "
                        "model is a tool error, not a finding about /repo)" % (module, name))
    out.states += r["distinct"]
    out.transitions += r["states"]
    st = {"stage": name, "module": module, "constants": {k: (sorted(v) if isinstance(v, (set, frozenset)) else v) for k, v in constants.items()},
          "tlc_states_generated": r["states"], "tlc_distinct_states": r["distinct"], "tlc_seconds": r["seconds"],
          "invariants": list(invariants), "properties": list(properties), "replay": {}}
    for prof in (profiles if replay else ()):
        res = os.path.join(wd, "%s.%s.json" % (name, prof))
        t0 = time.time()
        rc, o = sh([BIN[prof], replay_cmd, edges, "--prop", prop, "--out", res], timeout=timeout)
        if rc != 0:
            log(o[-3000:])
            raise ToolError("harness %s failed (rc=%s)" % (replay_cmd, rc))
        rj = json.load(open(res))
        st["replay"][prof] = {"edges": rj.get("edges"), "judged": rj["judged"], "violations": rj["violation_count"],
                              "seconds": round(time.time() - t0, 1), "by_subject": rj["by_kind"]}
        out.validated += rj["judged"]
        out.judged += rj["judged"]
        if not out.samples and rj.get("samples"):
            out.samples = rj["samples"][:3]
        for v in rj["violations"]:
            out.add_violation(v, name, rj["profile"], replay_cmd)
        if rj["judged"] < min_judged:
            raise ToolError("stage %s judged %d cases (< %d): the check would be vacuous" % (name, rj["judged"], min_judged))
    out.stages.append(st)
    try:
        os.remove(edges)
    except OSError:
        pass
    return st


def stage_scenarios(out, name, module, constants, invariants, properties=(), workers=12, timeout=1800):
    """TLC model check that prints SCN lines; returns the de-duplicated scenario file."""
    wd = os.path.join(WORK, out.prop)
    os.makedirs(wd, exist_ok=True)
    cfg = os.path.join(wd, name + ".cfg")
    write_cfg(cfg, constants, invariants, properties, action_constraint="EmitScenario")
    raw = os.path.join(wd, name + ".tlcout")
    r = run_tlc(module, cfg, raw, os.path.join(wd, name + ".meta"), workers=workers, timeout=timeout)
    if not r["ok"]:
        log(r["tail"][-3000:])
        raise ToolError("TLC did not complete cleanly on %s/%s" % (module, name))
    scn = os.path.join(wd, name + ".scn")
    seen = set()
    with open(raw, errors="replace") as f, open(scn, "w") as g:
        for line in f:
            if line.startswith('<<"SCN"') and line not in seen:
                seen.add(line)
                g.write(line)
    os.remove(raw)
    out.states += r["distinct"]
    out.transitions += r["states"]
    st = {"stage": name, "module": module, "constants": {k: (sorted(v) if isinstance(v, (set, frozenset)) else v) for k, v in constants.items()},
          "tlc_states_generated": r["states"], "tlc_distinct_states": r["distinct"], "tlc_seconds": r["seconds"],
          "invariants": list(invariants), "scenarios": len(seen)}
    out.stages.append(st)
    return scn


RUN_FIELD = re.compile(r'"run":(\d+)[,}]')
ERR_LINE = re.compile(r'^<<"ERR", (".*")>>$')
DONE_LINE = re.compile(r'^<<"DONE", (\d+), (\d+)>>$')


def validate_traces(out, name, trace_module, trace_cfg, jobs, why_filter=lambda w: True, timeout=1800, stack="1g",
                    prop_filter=None, err_filter=None):
    """jobs: list of dicts(label, trace, scenarios, profile, replay). Runs one TLC per trace in parallel.
    Every ERR line whose reason passes `why_filter` becomes a violation carrying the failing run."""
    wd = os.path.join(WORK, out.prop)
    procs = []
    for j in jobs:
        n_events = sum(1 for _ in open(j["trace"]))
        j["events"] = n_events
        if n_events == 0:
            raise ToolError("empty trace " + j["trace"])
        outp = os.path.join(wd, "%s.%s.tlcout" % (name, j["label"]))
        meta = os.path.join(wd, "%s.%s.meta" % (name, j["label"]))
        cmd = ["java", "-Xss" + stack, "-XX:+UseG1GC", "-Xmx6g", "-cp", JAR, "tlc2.TLC", "-workers", "1", "-metadir", meta,
               "-cleanup", "-noGenerateSpecTE", "-config", trace_cfg, trace_module]
        e = dict(os.environ)
        e["TRACE"] = j["trace"]
        f = open(outp, "w")
        procs.append((j, outp, meta, f, subprocess.Popen(cmd, cwd=SPEC, stdout=f, stderr=subprocess.STDOUT, env=e), time.time()))
    st = {"stage": name, "module": trace_module, "traces": []}
    for j, outp, meta, f, p, t0 in procs:
        try:
            p.wait(timeout=timeout)
        except subprocess.TimeoutExpired:
            p.kill()
            raise ToolError("trace validation timeout on " + j["label"])
        f.close()
        shutil.rmtree(meta, ignore_errors=True)
        done = None
        errs = []
        tail = []
        for line in open(outp, errors="replace"):
            line = line.rstrip("\n")
            m = ERR_LINE.match(line)
            if m:
                errs.append(json.loads(json.loads(m.group(1))))
                continue
            m = DONE_LINE.match(line)
            if m:
                done = (int(m.group(1)), int(m.group(2)))
                continue
            tail.append(line)
        if done is None or done[0] != j["events"]:
            log("\n".join(tail[-40:]))
            raise ToolError("trace %s was not consumed completely (%s of %d events): the trace specification or the "
                            "recorder is broken" % (j["label"], done, j["events"]))
        if j.get("regen") or j.get("random"):
            out.sampled.append(name)
        runs = j["events"] if j.get("runs_are_lines") else sum(1 for l in open(j["trace"]) if '"ev":"reset"' in l)
        out.validated += runs
        out.judged += j["events"]
        st["traces"].append({"label": j["label"], "events": j["events"], "runs": runs, "rejected_runs": len(errs),
                             "seconds": round(time.time() - t0, 1)})
        if not out.samples:
            with open(j["trace"]) as tf:
                out.samples = [json.loads(next(tf)) for _ in range(min(6, j["events"]))]
        # keep a few failing runs per reason; fetch their events in ONE pass over the trace
        kept, per_why = [], {}
        for e in errs:
            if prop_filter is not None:
                if e.get("prop") not in prop_filter:
                    continue
            elif not (why_filter(e["why"]) if err_filter is None else err_filter(e)):
                continue
            per_why[e["why"]] = per_why.get(e["why"], 0) + 1
            if per_why[e["why"]] <= 5:
                kept.append(e)
        st["traces"][-1]["rejections_by_reason"] = per_why
        if kept:
            want = {e["run"] for e in kept}
            scen = [] if j["scenarios"] == j["trace"] else [l for l in open(j["scenarios"]) if l.startswith("<<") or l.startswith("{")]
            # the first events of the run and the events leading to the rejected line
            events = {r: [] for r in want}
            upto = {}
            for e in kept:
                upto[e["run"]] = min(upto.get(e["run"], 1 << 60), e.get("line", 1 << 60))
            for ln, l in enumerate(open(j["trace"]), 1):
                m = RUN_FIELD.search(l)
                if m and int(m.group(1)) in want:
                    r_ = int(m.group(1))
                    if len(events[r_]) < 30 or (upto[r_] - 30 <= ln <= upto[r_]):
                        events[r_].append(dict(json.loads(l), line=ln))
            for e in kept:
                ops = decode_scn(scen[e["run"] - 1]) if e["run"] - 1 < len(scen) else None
                subj = next((x.get("subj") or (x.get("kind") if j.get("sigprefix") == "index-walk" else None)
                             for x in events[e["run"]] if x.get("ev") == "reset"), None)
                out.add_violation({"sig": "%s:%s%s" % (j.get("sigprefix", name), (subj + ":") if subj else "", e["why"]), "why": e["why"], "run": e["run"],
                                   "scenario": ops, "events": events[e["run"]], "label": j["label"], "ty": j.get("ty"),
                                   "line": e.get("line"), "regen": j.get("regen"),
                                   "rejected_runs_with_this_reason": per_why[e["why"]]},
                                  name, j["profile"], j["replay"])
        os.remove(outp)
    out.stages.append(st)
    return st


def decode_scn(line):
    line = line.strip()
    if line.startswith('<<"SCN", '):
        return json.loads(json.loads(line[len('<<"SCN", '):-2]))
    return json.loads(line)


def profile_label(prof):
    return {"dev": "dev(overflow-checks,debug-assertions)", "release": "release(wrapping)"}[prof]


def huffman_jobs(out, name, scn, tys=("u8", "u16"), nslots=2):
    wd = os.path.join(WORK, out.prop)
    jobs = []
    for ty in tys:
        for prof in ("dev", "release"):
            tr = os.path.join(wd, "%s.%s.%s.ndjson" % (name, ty, prof))
            rc, o = sh([BIN[prof], "huff-run", scn, "--ty", ty, "--out", tr, "--nslots", str(nslots)], timeout=1800)
            if rc != 0:
                log(o[-2000:])
                raise ToolError("huff-run failed")
            jobs.append({"label": "%s-%s" % (ty, prof), "trace": tr, "scenarios": scn, "profile": profile_label(prof),
                         "replay": "huffman", "ty": ty, "sigprefix": "huffman"})
    return jobs


HUFF_INV = ["Tiling", "CodeSane", "RefuseExact", "StatsExact"]


def huffman_property(out, q, seed, why_filter):
    # thorough: two raw pushes (profiles from two sources, clear + re-profile + second generation)
    c = {"NSlots": 2, "MaxRaw": 1 if q else 2, "MaxMerge": 2, "MaxCoded": 2, "MaxClear": 1,
         "ItemSel": "quick", "MaxCodeLen": 5, "Emit": True}
    scn = stage_scenarios(out, "model", "HuffmanMC.tla", c, HUFF_INV)
    if not q:
        # the larger item alphabet with one raw push
        c2 = dict(c, MaxRaw=1, ItemSel="thorough")
        scn2 = stage_scenarios(out, "model-items", "HuffmanMC.tla", c2, HUFF_INV)
        validate_traces(out, "model-items-traces", "TraceHuffman.tla", os.path.join(SPEC, "TraceHuffman.cfg"),
                        huffman_jobs(out, "model-items", scn2), why_filter)
    tcfg = os.path.join(SPEC, "TraceHuffman.cfg")
    jobs = huffman_jobs(out, "model", scn)
    validate_traces(out, "model-traces", "TraceHuffman.tla", tcfg, jobs, why_filter)
    # beyond the bounds: seeded random scenarios over large alphabets and skewed profiles
    wd = os.path.join(WORK, out.prop)
    jobs = []
    for ty in ("u8", "u16"):
        g = os.path.join(wd, "random.%s.scn" % ty)
        rc, o = sh([BIN["release"], "huff-gen", "--seed", str(seed * 1000 + (1 if ty == "u8" else 2)), "--count",
                    str(40 if q else 400), "--ty", ty, "--out", g])
        if rc != 0:
            raise ToolError("huff-gen failed")
        jobs += [dict(j, random=True) for j in huffman_jobs(out, "random", g, tys=(ty,), nslots=3)]
    validate_traces(out, "random-traces", "TraceHuffman.tla", tcfg, jobs, why_filter)
    for j in glob.glob(os.path.join(wd, "*.ndjson")):
        os.remove(j)


def contract_trace_stage(out, props, q, seed, subjects=None, runs=None, long=None):
    """impl -> spec: seeded random histories of the real regions validated against TraceContract.tla;
    only rejections that belong to one of `props` count."""
    wd = os.path.join(WORK, out.prop)
    os.makedirs(wd, exist_ok=True)
    jobs = []
    cmds = []
    for prof in ("dev", "release"):
        tr = os.path.join(wd, "contract.%s.ndjson" % prof)
        args = [BIN[prof], "drive", "--seed", str(seed * 100 + 11), "--runs", str((3 if q else 40) if runs is None else runs), "--steps", str(60 if q else 120),
                "--long", str((1500 if q else 20000) if long is None else long)]
        if subjects:
            args += ["--subjects", ",".join(sorted(subjects))]
        args += ["--out", tr]
        cmds.append(args)
        jobs.append({"label": prof, "trace": tr, "scenarios": tr, "profile": profile_label(prof), "replay": "regen",
                     "sigprefix": "contract", "regen": {"args": args[1:-1], "module": "TraceContract.tla", "cfg": "TraceContract.cfg"}})
    sh_all(cmds, timeout=3000, what="drive")
    validate_traces(out, "contract-traces", "TraceContract.tla", os.path.join(SPEC, "TraceContract.cfg"), jobs,
                    why_filter=None, prop_filter=set(props), timeout=3000)
    for j in glob.glob(os.path.join(wd, "*.ndjson")):
        os.remove(j)


def alloc_property(out, q, seed):
    wd = os.path.join(WORK, out.prop)
    os.makedirs(wd, exist_ok=True)
    jobs = []
    # the allocator is only counted in the release profile as well: both profiles must obey the ledger
    cmds = []
    for prof in ("dev", "release"):
        tr = os.path.join(wd, "alloc.%s.ndjson" % prof)
        args = [BIN[prof], "alloc-run", "--seed", str(seed * 100 + 17), "--runs", str(6 if q else 40), "--growth",
                str(10 if q else 14), "--out", tr]
        cmds.append(args)
        jobs.append({"label": prof, "trace": tr, "scenarios": tr, "profile": profile_label(prof), "replay": "regen",
                     "sigprefix": "alloc", "regen": {"args": args[1:-1], "module": "TraceAlloc.tla", "cfg": "TraceAlloc.cfg"}})
    sh_all(cmds, timeout=3000, what="alloc-run")
    validate_traces(out, "alloc-traces", "TraceAlloc.tla", os.path.join(SPEC, "TraceAlloc.cfg"), jobs, timeout=3000)
    for j in glob.glob(os.path.join(wd, "*.ndjson")):
        os.remove(j)


def string_codec_stage(out, q, seed):
    """C04 for dictionary-coded string regions: StringRegion<CodecRegion<DictionaryCodec>> driven through &str;
    every &str handed out is re-validated as UTF-8 and must be the pushed string (TraceDict decides)."""
    wd = os.path.join(WORK, out.prop)
    os.makedirs(wd, exist_ok=True)
    g = os.path.join(wd, "strcodec.scn")
    rc, o = sh([BIN["release"], "dict-gen", "--utf8", "--seed", str(seed * 1000 + 9), "--count", str(28 if q else 210), "--out", g])
    if rc != 0:
        raise ToolError("dict-gen --utf8 failed")
    jobs = []
    for prof in ("dev", "release"):
        tr = os.path.join(wd, "strcodec.%s.ndjson" % prof)
        rc, o = sh([BIN[prof], "dict-run", g, "--out", tr, "--nslots", "5", "--as-str"], timeout=1800)
        if rc != 0:
            log(o[-2000:])
            raise ToolError("dict-run --as-str failed")
        jobs.append({"random": True, "label": "str-" + prof, "trace": tr, "scenarios": g, "profile": profile_label(prof),
                     "replay": "dictionary-str", "sigprefix": "string-codec"})
    validate_traces(out, "string-codec-traces", "TraceDict.tla", os.path.join(SPEC, "TraceDict.cfg"), jobs,
                    err_filter=lambda e: e["why"] in ("read-failed", "read-back-differs", "earlier-item-changed"), timeout=3000)
    for j in glob.glob(os.path.join(wd, "*.ndjson")):
        os.remove(j)


def string_alphabet_stage(out):
    """C04, program-text half: facts scanned from /repo/src checked against spec/StringAlphabet.tla"""
    wd = os.path.join(WORK, out.prop)
    os.makedirs(wd, exist_ok=True)
    sys.path.insert(0, os.path.join(VERIF, "lib"))
    import scan_api
    facts = scan_api.scan(REPO)
    fp = os.path.join(wd, "facts.json")
    json.dump(facts, open(fp, "w"), indent=1)
    outp = os.path.join(wd, "alphabet.tlcout")
    r = run_tlc("StringAlphabet.tla", os.path.join(SPEC, "StringAlphabet.cfg"), outp, os.path.join(wd, "alphabet.meta"),
                workers=1, timeout=300, env={"FACTS": fp})
    text = open(outp, errors="replace").read()
    # the invariants are constant-level formulas over the scanned facts; TLC words their failure differently
    violated = re.findall(r"Invariant (\w+) is violated", text) + re.findall(r"The invariant of (\w+) is equal to FALSE", text)
    st = {"stage": "string-alphabet", "module": "StringAlphabet.tla", "facts": facts, "violated": violated}
    out.stages.append(st)
    out.states += 1
    out.transitions += 1
    if violated:
        for inv in violated:
            out.add_violation({"sig": "alphabet:" + inv, "why": inv, "facts": facts, "path": [], "subj": "program-text"},
                              "string-alphabet", "source", "alphabet")
    elif not r["ok"]:
        log(r["tail"][-2000:])
        raise ToolError("TLC failed on StringAlphabet.tla")
    os.remove(outp)


def coded_stage(out, q, seed, err_filter, what="coded regions"):
    """Huffman- and dictionary-coded regions for properties other than C06/C07: the bounded-model scenarios are
    executed and validated as for C06/C07, but only the rejections selected by `err_filter` count."""
    c = {"NSlots": 2, "MaxRaw": 1, "MaxMerge": 2, "MaxCoded": 2, "MaxClear": 1, "ItemSel": "quick", "MaxCodeLen": 5, "Emit": True}
    scn = stage_scenarios(out, "huffman-model", "HuffmanMC.tla", c, HUFF_INV)
    validate_traces(out, "huffman-traces", "TraceHuffman.tla", os.path.join(SPEC, "TraceHuffman.cfg"),
                    huffman_jobs(out, "huffman-model", scn, tys=("u8",) if q else ("u8", "u16")), err_filter=err_filter)
    c = {"NSlots": 2, "MaxGen0": 2, "MaxMerge": 1, "MaxCoded": 2, "MaxClear": 1, "MaxReserve": 1, "StrSel": "quick", "Emit": True}
    scn = stage_scenarios(out, "dict-model", "DictMC.tla", c, DICT_INV, timeout=3000)
    validate_traces(out, "dict-traces", "TraceDict.tla", os.path.join(SPEC, "TraceDict.cfg"),
                    dict_jobs(out, "dict-model", scn, 2, flavours=("region", "stack")), err_filter=err_filter)
    wd = os.path.join(WORK, out.prop)
    for j in glob.glob(os.path.join(wd, "*.ndjson")):
        os.remove(j)


def coded_columns_stage(out, q, seed, err_filter):
    """a coded region nested in a fan-out region: ColumnsRegion<HuffmanContainer<u8>> (random rows, merges over
    differently wide sources in any order, clears), validated against TraceCodedColumns.tla"""
    wd = os.path.join(WORK, out.prop)
    os.makedirs(wd, exist_ok=True)
    jobs = []
    for fl in ("region", "stack"):
        for prof in ("dev", "release"):
            tr = os.path.join(wd, "codedcols.%s.%s.ndjson" % (fl, prof))
            args = [BIN[prof], "huffcols-run", "--seed", str(seed * 100 + 31), "--runs", str(300 if q else 3000)] + \
                   (["--as-stack"] if fl == "stack" else []) + ["--out", tr]
            rc, o = sh(args)
            if rc != 0:
                raise ToolError("huffcols-run failed")
            jobs.append({"label": "codedcols-%s-%s" % (fl, prof), "trace": tr, "scenarios": tr, "profile": profile_label(prof),
                         "replay": "regen", "sigprefix": "coded-columns" + ("-stack" if fl == "stack" else ""),
                         "regen": {"args": args[1:-1], "module": "TraceCodedColumns.tla", "cfg": "TraceCodedColumns.cfg"}})
    validate_traces(out, "coded-columns-traces", "TraceCodedColumns.tla", os.path.join(SPEC, "TraceCodedColumns.cfg"), jobs,
                    err_filter=err_filter)
    for j in glob.glob(os.path.join(wd, "*.ndjson")):
        os.remove(j)


DICT_INV = ["RoundTrip", "RefuseExact", "RefusalNecessary", "DictSane", "CodedCostsOne"]


def dict_jobs(out, name, scn, nslots, flavours=("region",)):
    """flavours: "region" = CodecRegion<DictionaryCodec>; "stack" = FlatStack over it (copy / get / merge_capacity /
    clear); the same scenarios, the same trace specification"""
    wd = os.path.join(WORK, out.prop)
    jobs = []
    for fl in flavours:
        for prof in ("dev", "release"):
            tr = os.path.join(wd, "%s.%s.%s.ndjson" % (name, fl, prof))
            rc, o = sh([BIN[prof], "dict-run", scn, "--out", tr, "--nslots", str(nslots)] + (["--as-stack"] if fl == "stack" else []), timeout=1800)
            if rc != 0:
                log(o[-2000:])
                raise ToolError("dict-run failed")
            jobs.append({"label": "%s-%s" % (fl, prof), "trace": tr, "scenarios": scn, "profile": profile_label(prof),
                         "replay": "dictionary-stack" if fl == "stack" else "dictionary",
                         "sigprefix": "dictionary-stack" if fl == "stack" else "dictionary"})
    return jobs


def summary_stage(out, q, seed):
    """the heavy-hitter summary behind the dictionary statistics: MisraGries.tla model-checked (guarantees as
    invariants), then recorded runs of the real `MisraGries` validated against the same guarantees"""
    wd = os.path.join(WORK, out.prop)
    os.makedirs(wd, exist_ok=True)
    cfg = os.path.join(wd, "mg.cfg")
    write_cfg(cfg, {"Elems": {1, 2, 3, 4}, "Cap": 4 if q else 6, "MaxN": 10 if q else 11},
              ["NeverOverestimates", "Bounded", "LossBounded", "DominantFirst"], view=None, action_constraint=None)
    r = run_tlc("MisraGries.tla", cfg, os.path.join(wd, "mg.tlcout"), os.path.join(wd, "mg.meta"), workers=4, timeout=900)
    if not r["ok"]:
        log(r["tail"][-2000:])
        raise ToolError("TLC failed on MisraGries.tla")
    out.states += r["distinct"]
    out.transitions += r["states"]
    out.stages.append({"stage": "summary-model", "module": "MisraGries.tla", "tlc_states_generated": r["states"],
                       "tlc_distinct_states": r["distinct"], "invariants": ["NeverOverestimates", "Bounded", "LossBounded", "DominantFirst"]})
    jobs = []
    for prof in ("dev", "release"):
        tr = os.path.join(wd, "mg.%s.ndjson" % prof)
        args = [BIN[prof], "mg-run", "--seed", str(seed * 100 + 23), "--runs", str(150 if q else 1500), "--out", tr]
        rc, o = sh(args)
        if rc != 0:
            raise ToolError("mg-run failed")
        jobs.append({"label": "mg-" + prof, "trace": tr, "scenarios": tr, "profile": profile_label(prof), "replay": "regen",
                     "sigprefix": "summary", "runs_are_lines": True,
                     "regen": {"args": args[1:-1], "module": "TraceMG.tla", "cfg": "TraceMG.cfg"}})
    validate_traces(out, "summary-traces", "TraceMG.tla", os.path.join(SPEC, "TraceMG.cfg"), jobs, timeout=1800)
    for j in glob.glob(os.path.join(wd, "*.ndjson")):
        os.remove(j)


def dictionary_property(out, q, seed):
    # thorough: a second merge generation (the larger string set multiplies the scenarios beyond what one
    # trace validation digests in reasonable time; it is used by the random scenarios instead)
    c = {"NSlots": 2, "MaxGen0": 2, "MaxMerge": 1 if q else 2, "MaxCoded": 2, "MaxClear": 1, "MaxReserve": 1 if q else 0,
         "StrSel": "quick", "Emit": True}
    scn = stage_scenarios(out, "model", "DictMC.tla", c, DICT_INV, timeout=3000)
    tcfg = os.path.join(SPEC, "TraceDict.cfg")
    validate_traces(out, "model-traces", "TraceDict.tla", tcfg, dict_jobs(out, "model", scn, 2))
    wd = os.path.join(WORK, out.prop)
    g = os.path.join(wd, "random.scn")
    rc, o = sh([BIN["release"], "dict-gen", "--seed", str(seed * 1000 + 7), "--count", str(36 if q else 240), "--out", g])
    if rc != 0:
        raise ToolError("dict-gen failed")
    validate_traces(out, "random-traces", "TraceDict.tla", tcfg, [dict(j, random=True) for j in dict_jobs(out, "random", g, 5)], timeout=3000)
    for j in glob.glob(os.path.join(wd, "*.ndjson")):
        os.remove(j)
    summary_stage(out, q, seed)


def dictionary_random_stage(out, q, seed, err_filter, name):
    """seeded dictionary histories (generations of merges, demotion of formerly coded strings, unbalanced
    sources, all first bytes) for properties other than C07: only the rejections selected by err_filter count"""
    wd = os.path.join(WORK, out.prop)
    os.makedirs(wd, exist_ok=True)
    g = os.path.join(wd, name + ".scn")
    rc, o = sh([BIN["release"], "dict-gen", "--seed", str(seed * 1000 + 7), "--count", str(36 if q else 240), "--out", g])
    if rc != 0:
        raise ToolError("dict-gen failed")
    validate_traces(out, name + "-traces", "TraceDict.tla", os.path.join(SPEC, "TraceDict.cfg"), [dict(j, random=True) for j in dict_jobs(out, name, g, 5)],
                    timeout=3000, err_filter=err_filter)
    for j in glob.glob(os.path.join(wd, "*.ndjson")):
        os.remove(j)


def huffman_random_stage(out, q, seed, err_filter, name):
    wd = os.path.join(WORK, out.prop)
    os.makedirs(wd, exist_ok=True)
    jobs = []
    for ty in ("u8", "u16"):
        g = os.path.join(wd, "%s.%s.scn" % (name, ty))
        rc, o = sh([BIN["release"], "huff-gen", "--seed", str(seed * 1000 + (5 if ty == "u8" else 6)), "--count",
                    str(40 if q else 300), "--ty", ty, "--out", g] + (["--small"] if q else []))
        if rc != 0:
            raise ToolError("huff-gen failed")
        jobs += [dict(j, random=True) for j in huffman_jobs(out, name, g, tys=(ty,), nslots=3)]
    validate_traces(out, name + "-traces", "TraceHuffman.tla", os.path.join(SPEC, "TraceHuffman.cfg"), jobs, err_filter=err_filter)
    for j in glob.glob(os.path.join(wd, "*.ndjson")):
        os.remove(j)


def huffman_cmp_stage(out, q, seed):
    """raw vs Huffman-encoded items: comparison events of seeded scenarios, validated by TraceHuffman"""
    wd = os.path.join(WORK, out.prop)
    tcfg = os.path.join(SPEC, "TraceHuffman.cfg")
    jobs = []
    for ty in ("u8", "u16"):
        g = os.path.join(wd, "cmp.%s.scn" % ty)
        rc, o = sh([BIN["release"], "huff-gen", "--seed", str(seed * 1000 + (3 if ty == "u8" else 4)), "--count",
                    str(60 if q else 400), "--ty", ty, "--out", g, "--mode", "cmp"])
        if rc != 0:
            raise ToolError("huff-gen failed")
        jobs += [dict(j, random=True) for j in huffman_jobs(out, "cmp", g, tys=(ty,), nslots=3)]
    validate_traces(out, "huffman-cmp-traces", "TraceHuffman.tla", tcfg, jobs, lambda w: w.startswith("cmp"))
    for j in glob.glob(os.path.join(wd, "*.ndjson")):
        os.remove(j)


# --------------------------------------------------------------------------------------------
# property table

REGION_INV = ["RoundTrip", "Shaped", "Dense", "StringsValid", "ClearFresh", "MergeFresh", "CollapseExact",
              "GetExact", "CloneOntoLaw", "OrderLaws", "ReserveItemsSufficient", "ReserveRegionsSufficient"]
REGION_PROPS = ["AppendOnly", "UsedMonotone"]
IC_INV = ["Faithful", "LenAgrees", "IndexAtAgrees", "NoOverflowValue", "StrideExact", "StrideRejectsOnlyBreaks", "StrideRejectIsNoop",
          "CostRule", "Structure"]
IC_PROPS = ["AppendOnly", "FrozenParts"]


def subjects_where(cat, pred):
    return {e["name"] for e in cat if pred(e)}


def shape_has(shape, kind):
    if isinstance(shape, dict):
        if shape.get("k") == kind:
            return True
        return any(shape_has(v, kind) for v in shape.values())
    if isinstance(shape, list):
        return any(shape_has(v, kind) for v in shape)
    return False


def has_string(shape):
    return shape_has(shape, "string") or (isinstance(shape, dict) and shape.get("t") == "string") or \
        any(has_string(v) for v in (shape.values() if isinstance(shape, dict) else shape if isinstance(shape, list) else []))


def region_consts(names, nslots, maxops, ghost, dom, ops, queries=(), equiv=1):
    return {"SubjectNames": set(names), "NSlots": nslots, "MaxOps": maxops, "MaxGhost": ghost, "DomSize": dom,
            "Ops": set(ops), "Queries": set(queries) if queries else set(), "EquivDepth": equiv, "Emit": True,
            "U32Limit": 2147483647}


def region_stage(out, name, prop, names, nslots, maxops, ghost, dom, ops, queries=(), equiv=1, **kw):
    if not names:
        raise ToolError("no catalogue subject qualifies for stage " + name)
    c = region_consts(names, nslots, maxops, ghost, dom, ops, queries, equiv)
    if not c["Queries"]:
        c["Queries"] = {"none"}
    return stage_edges(out, name, "RegionsMC.tla", c, REGION_INV, REGION_PROPS, "replay", prop, **kw)


def ic_stage(out, name, prop, kinds, alpha, maxops, ghost, extend=True, **kw):
    c = {"Kinds": set(kinds), "AlphaSel": alpha, "MaxOps": maxops, "MaxGhost": ghost, "ExtendOn": extend, "Emit": True}
    return stage_edges(out, name, "ICMC.tla", c, IC_INV, IC_PROPS, "ic-replay", prop, **kw)


def stride_proof_stage(out):
    """TLAPS: the unbounded step theorems about Stride::push, IndexList and IndexOptimized (proofs/*.tla EXTEND the very
    StrideCore.tla / IndexCore.tla that IndexContainers.tla extends).  Supplementary to the bounded TLC result; a
    failure means the proofs and the specification have drifted apart (tool error, not a violation of the code)."""
    wd = os.path.join(WORK, out.prop, "tlaps")
    shutil.rmtree(wd, ignore_errors=True)
    os.makedirs(wd)
    for f in ("StrideCore.tla", "IndexCore.tla"):
        shutil.copy(os.path.join(SPEC, f), wd)
    for f in ("StrideProof.tla", "IndexProof.tla"):
        shutil.copy(os.path.join(SPEC, "proofs", f), wd)
    for mod, thms in (("StrideProof", ["InitWF", "RejectIsNoop", "PushKeepsWF", "AcceptAppends"]),
                      ("IndexProof", ["ListPushWF", "ListPushLen", "ListPushIndex", "ListPushCost", "OptPushCost", "OptPushIndex",
                                      "OptStrideFrozen", "VecPush"])):
        t0 = time.time()
        rc, o = sh(["tlapm", "--threads", "8", mod + ".tla"], cwd=wd, timeout=1500)
        m = re.search(r"All (\d+) obligations proved", o)
        if rc != 0 or not m:
            log(o[-1500:])
            raise ToolError("tlapm does not prove proofs/%s.tla against the specification modules" % mod)
        out.stages.append({"stage": "step-proofs-" + mod, "module": "proofs/%s.tla" % mod, "tool": "tlapm (TLAPS)",
                           "obligations_proved": int(m.group(1)), "seconds": round(time.time() - t0, 1), "theorems": thms})
    shutil.rmtree(wd, ignore_errors=True)


def walk_filter(pred):
    def f(e):
        if e["why"].startswith("TOOL-"):
            raise ToolError("the index-walk generator exceeded what TraceIC can compute exactly: " + e["why"])
        return pred(e)
    return f


def ic_walk_stage(out, q, seed, err_filter, name="index-walks"):
    """impl -> spec: long histories (thousands of pushes: long strides, saturation, overflow of stride * count deep
    into a run, the u32 -> u64 switch, clears, copies, reservations, iterator windows) of the four index containers,
    validated against TraceIC.tla - the state machine of IndexContainers.tla over exact 64-bit words"""
    wd = os.path.join(WORK, out.prop)
    os.makedirs(wd, exist_ok=True)
    jobs = []
    cmds = []
    for prof in ("dev", "release"):
        tr = os.path.join(wd, "%s.%s.ndjson" % (name, prof))
        # (the monitor carries the container's whole contents: validation time grows with runs x len^2)
        args = [BIN[prof], "ic-walk", "--seed", str(seed * 100 + 41), "--runs", str(24 if q else 72), "--len",
                str(4000 if q else 9000), "--out", tr]
        cmds.append(args)
        jobs.append({"label": "walk-" + prof, "trace": tr, "scenarios": tr, "profile": profile_label(prof), "replay": "regen",
                     "sigprefix": "index-walk", "regen": {"args": args[1:-1], "module": "TraceIC.tla", "cfg": "TraceIC.cfg"}})
    sh_all(cmds, timeout=3000, what="ic-walk")
    validate_traces(out, name + "-traces", "TraceIC.tla", os.path.join(SPEC, "TraceIC.cfg"), jobs, timeout=3000,
                    err_filter=walk_filter(err_filter))
    for j in glob.glob(os.path.join(wd, "*.ndjson")):
        os.remove(j)


FS_INV = ["Denote", "LenOK", "GetOK", "RegionShaped", "IndexBytesZero", "IndexCost"]
FS_OPS_ALL = ["copy", "extend", "from_iter", "clear", "with_capacity", "merge_capacity", "reserve", "reserve_items", "reserve_regions",
              "clone", "clone_from", "serde"]


def stack_names(pred=lambda e: True):
    return {e["name"] for e in json.load(open(os.path.join(SPEC, "stacks.json"))) if pred(e)}


def check_stacks():
    rc, out = sh([BIN["dev"], "stacks"])
    if rc != 0 or json.loads(out) != json.load(open(os.path.join(SPEC, "stacks.json"))):
        raise ToolError("spec/stacks.json disagrees with the harness's FlatStack catalogue")


def stack_stage(out, name, prop, names, maxops, ghost, dom, ops, **kw):
    c = {"SubjectNames": set(names), "MaxOps": maxops, "MaxGhost": ghost, "DomSize": dom, "Ops": set(ops), "Emit": True,
         "U32Limit": 2147483647}
    return stage_edges(out, name, "FlatStackMC.tla", c, FS_INV, ["AppendOnly"], "stack-replay", prop, **kw)


def run_property(prop, tier, seed):
    out = Outcome(prop, tier, seed)
    build_harness()
    cat = check_catalogue()
    check_stacks()
    allnames = {e["name"] for e in cat}
    q = tier == "quick"
    out.assumptions = [
        "the TLA+ modules in /verif/spec state the intended behaviour (reviewed against src/ and the crate documentation)",
        "TLC explores the bounded model exhaustively (constants listed per stage); beyond the bounds the binding is by sampled traces",
        "harness/src/val.rs renders read items through the public accessors only; no hooks are compiled into /repo",
    ]
    if prop == "C05":
        ic_stage(out, "full", prop, ["vec", "stride", "list", "opt"], "full", 4 if q else 5, 0)
        ic_stage(out, "small-deep", prop, ["stride", "opt", "list"], "small", 6 if q else 8, 0, extend=False)
        if not q:
            ic_stage(out, "big-deep", prop, ["stride", "opt", "list"], "big", 6, 0, extend=False)
            stride_proof_stage(out)
        ic_walk_stage(out, q, seed, lambda e: e["why"] not in ("heap-bytes-differ-from-documented-cost", "capacity-shrank-on-clear"))
    elif prop == "C19":
        # ghost = 1: reserve / clone / serde may precede or follow; capacity must stay zero for compressible histories
        ic_stage(out, "full", prop, ["vec", "list", "opt"], "full", 4 if q else 5, 1)
        ic_stage(out, "small-deep", prop, ["opt", "list"], "small", 6 if q else 8, 0, extend=False)
        if not q:
            ic_stage(out, "big-deep", prop, ["opt", "list"], "big", 6, 0, extend=False)
            stride_proof_stage(out)
        stack_stage(out, "flatstack-dense", prop, stack_names(lambda e: e["ic"] == "opt"), 4 if q else 5, 1, 4 if q else 5,
                    ["copy", "extend", "from_iter", "clear", "merge_capacity", "clone", "serde", "reserve"])
        ic_walk_stage(out, q, seed, lambda e: e["why"] == "heap-bytes-differ-from-documented-cost")
    elif prop == "C01":
        region_stage(out, "push-clear", prop, allnames, 1, 3 if q else 4, 0, 4 if q else 5, ["push", "clear"])
        region_stage(out, "push-from", prop, subjects_where(cat, lambda e: e["caps"]["push_item"]), 2, 3, 0, 3,
                     ["push", "push_from"])
        coded_stage(out, q, seed, lambda e: e["why"] in ("push-panicked", "read-failed", "read-differs", "read-back-differs",
                                                         "merge-panicked", "clear-panicked"))
        # every index sequence of the ICMC alphabet (incl. 2^63, usize::MAX) taken through regions whose inner index
        # is the value: SliceRegion<MirrorRegion<usize>, S> and FlatStack<MirrorRegion<usize>, S>
        ic_stage(out, "index-through-region", prop, ["opt", "list", "vec"], "full", 4 if q else 5, 0)
        dictionary_random_stage(out, q, seed, lambda e: e["why"] in ("push-panicked", "read-failed", "read-differs", "read-back-differs"),
                                "dictionary-histories")
        huffman_random_stage(out, q, seed, lambda e: e["why"] in ("push-panicked", "read-failed", "read-differs"), "huffman-histories")
        coded_columns_stage(out, q, seed, lambda e: e["why"] in ("read-failed", "read-differs", "push-into-merged-panicked"))
        contract_trace_stage(out, ["C01"], q, seed)
    elif prop == "C02":
        region_stage(out, "push-reserve", prop, allnames, 1, 4 if q else 5, 1, 3 if q else 4,
                     ["push", "reserve_items", "reserve_regions"])
        region_stage(out, "two-slots", prop, allnames, 2, 3 if q else 4, 1, 3,
                     ["push", "push_from", "reserve_regions"])
        ic_stage(out, "index-through-region", prop, ["opt", "list", "vec"], "full", 4 if q else 5, 1)
        coded_stage(out, q, seed, lambda e: e["why"] in ("earlier-item-changed", "reserve-changed-reads"))
        # long random histories: items of every bit length at every bit offset, re-read after each later push
        huffman_random_stage(out, q, seed, lambda e: e["why"] == "earlier-item-changed", "huffman-histories")
        coded_columns_stage(out, q, seed, lambda e: e["why"] == "earlier-row-changed")
        contract_trace_stage(out, ["C02"], q, seed)
    elif prop == "C04":
        names = subjects_where(cat, lambda e: has_string(e["shape"]))
        region_stage(out, "strings", prop, names, 2, 3 if q else 4, 1, 4 if q else 5,
                     ["push", "clear", "clone", "clone_from", "merge", "serde", "push_from"])
        string_codec_stage(out, q, seed)
        string_alphabet_stage(out)
        # long histories with copies and read-item pushes: every &str handed out is re-validated by the recorder
        contract_trace_stage(out, ["C04"], q, seed, subjects=names)
    elif prop == "C08":
        region_stage(out, "clear", prop, allnames, 1, 4 if q else 5, 0, 3 if q else 4, ["push", "clear"], equiv=2)
        ic_stage(out, "index-containers", prop, ["vec", "stride", "list", "opt"], "full", 4, 0)
        stack_stage(out, "flatstack", prop, stack_names(), 4 if q else 5, 0, 3, ["copy", "extend", "clear"])
        coded_stage(out, q, seed, lambda e: (e.get("afterclear", False) and not e["why"].startswith("cmp")) or
                    e["why"] == "merge-over-cleared-differs-from-fresh")
        huffman_random_stage(out, q, seed, lambda e: (e.get("afterclear", False) and not e["why"].startswith("cmp")) or
                             e["why"] == "merge-over-cleared-differs-from-fresh", "huffman-cleared")
        ic_walk_stage(out, q, seed, lambda e: (e.get("afterclear", False) or e["why"] == "clear-panicked") and e["why"] != "capacity-shrank-on-clear")
        coded_columns_stage(out, q, seed, lambda e: e.get("afterclear", False) or e["why"] == "clear-panicked")
        # long histories (allocations of hundreds of KiB), then clear, then the same pushes next to a brand-new twin
        contract_trace_stage(out, ["C08"], q, seed, runs=1 if q else 10, long=9000 if q else 40000)
    elif prop == "C03":
        stack_stage(out, "flatstack", prop, stack_names(), 4 if q else 5, 1, 3 if q else 4, FS_OPS_ALL)
        ic_stage(out, "index-through-stack", prop, ["opt", "list", "vec"], "full", 4 if q else 5, 0)
        contract_trace_stage(out, ["C03"], q, seed, runs=0)
    elif prop == "C09":
        names = subjects_where(cat, lambda e: e["caps"]["clone"])
        region_stage(out, "clone", prop, names, 2, 4 if q else 5, 1, 3, ["push", "clear", "clone", "clone_from"])
        ic_stage(out, "index-containers", prop, ["vec", "stride", "list", "opt"], "full", 4, 1)
        stack_stage(out, "flatstack", prop, stack_names(), 4, 1, 3, ["copy", "extend", "clear", "clone", "clone_from"])
        # coded containers: clone and clone_from (into a differently coded container), then the same continuation
        huffman_random_stage(out, q, seed, lambda e: (e.get("copied", False) or e["why"].startswith("copy")) and not e["why"].startswith("cmp"),
                             "huffman-copies")
        ic_walk_stage(out, q, seed, lambda e: (e.get("copied", False) or e["why"] == "copy-failed") and e["why"] != "capacity-shrank-on-clear")
        # a coded region nested in a fan-out region, bare and under a FlatStack: clone / clone_from, same continuation
        coded_columns_stage(out, q, seed, lambda e: e.get("copied", False) or e["why"].startswith("copy-"))
        contract_trace_stage(out, ["C09"], q, seed)
    elif prop == "C16":
        names = subjects_where(cat, lambda e: e["caps"]["serde"] and not shape_has_f64(e["shape"]))
        region_stage(out, "serde", prop, names, 2, 4 if q else 5, 1, 3, ["push", "clear", "serde"])
        ic_stage(out, "index-containers", prop, ["vec", "stride", "list", "opt"], "full", 4, 1)
        stack_stage(out, "flatstack", prop, stack_names(), 4, 1, 3, ["copy", "extend", "clear", "serde"])
        contract_trace_stage(out, ["C16"], q, seed)
    elif prop == "C10":
        region_stage(out, "reserve-merge", prop, allnames, 2, 3 if q else 4, 2, 3,
                     ["push", "clear", "reserve_items", "reserve_regions", "merge"])
        stack_stage(out, "flatstack", prop, stack_names(), 4, 2, 3,
                    ["copy", "extend", "clear", "reserve", "reserve_items", "reserve_regions", "with_capacity", "merge_capacity"])
        # merged coded regions read back what is pushed, within their acceptance contract
        coded_stage(out, q, seed, lambda e: e["why"] in ("merge-panicked", "read-failed", "read-differs", "read-back-differs",
                                                         "push-panicked", "ambiguous-input-accepted", "reserve-changed-reads",
                                                         "reserve-panicked") or e.get("reserved", False))
        # generations of merges of merged dictionary regions (demotion of formerly coded strings, unbalanced sources)
        dictionary_random_stage(out, q, seed, lambda e: e["why"] in ("merge-panicked", "push-panicked", "read-failed", "read-back-differs",
                                                                     "ambiguous-input-accepted", "reserve-changed-reads"),
                                "dictionary-generations")
        # generations of merges whose sources were fed in every input form (incl. read items of coded containers):
        # the merged container must accept what its sources' statistics cover
        huffman_random_stage(out, q, seed, lambda e: e["why"] in ("merge-panicked", "push-panicked", "read-failed", "read-differs",
                                                                  "code-domain-differs-from-statistics"), "huffman-generations")
        coded_columns_stage(out, q, seed, lambda e: e["why"] in ("push-into-merged-panicked", "merge-panicked", "read-failed",
                                                                   "read-differs", "symbol-outside-statistics-was-stored"))
        contract_trace_stage(out, ["C10"], q, seed)
    elif prop == "C11":
        names = subjects_where(cat, lambda e: shape_has(e["shape"], "collapse"))
        region_stage(out, "collapse", prop, names, 2, 4 if q else 5, 1, 3 if q else 4,
                     ["push", "clear", "clone", "clone_from", "merge", "serde", "reserve_regions"])
        contract_trace_stage(out, ["C11"], q, seed, subjects=names)
    elif prop == "C12":
        names = subjects_where(cat, lambda e: e["shape"]["k"] in ("cip", "columns"))
        region_stage(out, "dense", prop, names, 2, 4 if q else 5, 1, 4 if q else 5, ["push", "clear", "merge", "reserve_regions"])
        # offset sequences beyond u32::MAX: the ICMC histories over a monotone alphabet (a 2^31 stride past 2^32, a value
        # that breaks it, its next multiple) read as item lengths of ConsecutiveIndexPairs over a zero-sized payload
        ic_stage(out, "offsets-through-pairs", prop, ["opt", "list", "vec"], "mono", 6 if q else 7, 0, extend=False)
        ic_stage(out, "huge-offsets-through-pairs", prop, ["opt", "list", "vec"], "monobig", 4 if q else 5, 0, extend=False)
        contract_trace_stage(out, ["C12"], q, seed, subjects=names)
    elif prop == "C13":
        names = subjects_where(cat, lambda e: e["caps"]["get"])
        region_stage(out, "get", prop, names, 1, 4, 0, 3 if q else 4, ["push"], queries=["get"])
        # FlatStack::get(i): the i-th copy for i < len, a panic beyond - for every index container
        stack_stage(out, "flatstack-get", prop, stack_names(), 4, 0, 3, ["copy", "extend", "clear"])
    elif prop == "C14":
        names = subjects_where(cat, lambda e: e["caps"]["push_item"])
        region_stage(out, "into-owned", prop, names, 2, 3, 0, 4 if q else 5, ["push", "push_from"],
                     queries=["clone_onto", "borrow"])
        # Huffman items: clone_onto onto empty / shorter / longer targets; and containers that were fed read items of
        # other (raw or coded) containers must hand the same symbols back (region-to-region push yields an equal item)
        huffman_random_stage(out, q, seed, lambda e: e["why"] == "clone-onto-differs" or
                             (e.get("wrapped", False) and e["why"] in ("read-differs", "read-failed", "push-panicked")),
                             "huffman-clone-onto")
    elif prop == "C15":
        names = subjects_where(cat, lambda e: e["caps"]["cmp"])
        region_stage(out, "cmp", prop, names, 2, 3, 0, 5, ["push"], queries=["cmp"])
        huffman_cmp_stage(out, q, seed)
    elif prop == "C_unused":
        pass
    elif prop == "C18":
        names = subjects_where(cat, lambda e: e["caps"]["heap"])
        region_stage(out, "heap", prop, names, 1, 4 if q else 5, 0, 3 if q else 4, ["push", "clear"])
        # the accounting after copies and merges (a copy that later stores less than it is handed falls below the bound)
        cl = subjects_where(cat, lambda e: e["caps"]["heap"] and e["caps"]["clone"] and
                            (q is False or shape_has(e["shape"], "collapse") or shape_has(e["shape"], "cip")))
        region_stage(out, "heap-copies", prop, cl, 2, 4, 1, 3, ["push", "clone", "clone_from"] + ([] if q else ["clear", "merge"]))
        stack_stage(out, "flatstack", prop, stack_names(), 4, 0, 3, ["copy", "extend", "clear", "from_iter"])
        ic_stage(out, "index-containers", prop, ["vec", "list", "opt"], "full", 4, 0)
        ic_walk_stage(out, q, seed, lambda e: e["why"] == "capacity-shrank-on-clear")
        contract_trace_stage(out, ["C18"], q, seed)
    elif prop == "C20":
        region_stage(out, "forms", prop, allnames, 2, 3 if q else 4, 0, 3, ["push", "push_from"])
        # a read item of another container (raw or coded) as input form: reads, bit ranges and the statistics
        # that the next generation is built from
        huffman_random_stage(out, q, seed, lambda e: e.get("wrapped", False) and not e["why"].startswith("cmp"), "huffman-wrapped")
        # the ICMC index sequences (2^32 boundary, extend batches) through SliceRegion<MirrorRegion<usize>, S>: slice form
        # (bulk path) against a twin fed the same slices as read items of another region
        ic_stage(out, "index-forms-through-region", prop, ["opt", "list", "vec"], "full", 4, 0)
        contract_trace_stage(out, ["C20"], q, seed)
    elif prop == "C17":
        names = subjects_where(cat, lambda e: is_structural(e["shape"]))
        region_stage(out, "ledger-rule", prop, names, 2, 3, 0, 4, ["push", "clear"], min_judged=0, replay=False)
        alloc_property(out, q, seed)
    elif prop == "C07":
        dictionary_property(out, q, seed)
    elif prop == "C06":
        huffman_property(out, q, seed, lambda w: not w.startswith("cmp"))
    else:
        raise ToolError("property %s has no check yet" % prop)
    out.finish()


def is_structural(shape):
    k = shape.get("k")
    if k in ("owned", "mirror", "vecreg"):
        return True
    if k in ("string", "option"):
        return is_structural(shape["inner"])
    if k == "result":
        return is_structural(shape["ok"]) and is_structural(shape["err"])
    if k == "tuple":
        return all(is_structural(f) for f in shape["fs"])
    if k == "slice":
        return shape["ic"] == "vec" and is_structural(shape["inner"])
    return False


def shape_has_f64(shape):
    if isinstance(shape, dict):
        return shape.get("t") == "f64" or any(shape_has_f64(v) for v in shape.values())
    if isinstance(shape, list):
        return any(shape_has_f64(v) for v in shape)
    return False


# --------------------------------------------------------------------------------------------

def do_replay(prop, path):
    build_harness()
    r = json.load(open(path))
    kind = r.get("replay_kind", "replay")
    wd = os.path.join(WORK, "replay")
    os.makedirs(wd, exist_ok=True)
    if kind in ("huffman", "dictionary", "dictionary-str", "dictionary-stack"):
        return do_replay_trace(prop, path, r, kind, wd)
    if kind == "regen":
        return do_replay_regen(prop, path, r, wd)
    if kind == "alphabet":
        out = Outcome(prop, "quick", 0)
        string_codec_stage(out, q, seed)
        string_alphabet_stage(out)
        for v in out.violations:
            log("violated: %s" % v["why"])
            log(json.dumps(v["facts"], indent=1)[:3000])
        if out.violations:
            log("VIOLATION property=%s replay=%s" % (prop, path))
            sys.exit(1)
        log("replay does not reproduce on the current tree")
        sys.exit(0)
    if kind not in ("replay", "ic-replay", "stack-replay") or "path" not in r:
        die_tool("replay file of kind %r cannot be re-executed by this version (written by an older version?)" % kind)
    edge = {"subj": r.get("subj"), "kind": r.get("kind"), "path": r["path"], "fixed_forms": True,
            "res": r.get("expected", {}).get("res"), "obs": r.get("expected", {}).get("obs")}
    ef = os.path.join(wd, "edge.ndjson")
    open(ef, "w").write(json.dumps(edge) + "\n")
    bad = False
    for prof in ("dev", "release"):
        res = os.path.join(wd, "res.%s.json" % prof)
        rc, o = sh([BIN[prof], kind, ef, "--prop", prop, "--out", res])
        if rc != 0:
            die_tool("harness failed: " + o[-2000:])
        rj = json.load(open(res))
        log("--- profile %s: %d violation(s)" % (rj["profile"], rj["violation_count"]))
        log("path: " + json.dumps(r["path"]))
        log("specification expects: " + json.dumps(edge["obs"])[:2000])
        for v in rj["violations"]:
            bad = True
            log("observed: " + json.dumps(v.get("detail", v.get("observed")))[:3000])
            log("why: " + v.get("why", ""))
    if bad:
        log("VIOLATION property=%s replay=%s" % (prop, path))
        sys.exit(1)
    log("replay does not reproduce on the current tree")
    sys.exit(0)


def do_replay_regen(prop, path, r, wd):
    """violations found in seeded random traces: the generator is run again with the recorded arguments on the
    CURRENT tree (both profiles), the trace is validated by the same monitor, and the replay reproduces when a run
    is rejected for the same reason (same subject where runs name one)"""
    g = r.get("regen")
    if not g:
        die_tool("replay file carries no regeneration recipe")
    want_subj = next((x.get("subj") or x.get("kind") for x in r.get("events", []) if x.get("ev") == "reset"), None)
    bad = False
    for prof in ("dev", "release"):
        tr = os.path.join(wd, "regen.%s.ndjson" % prof)
        rc, o = sh([BIN[prof]] + g["args"] + [tr], timeout=3000)
        if rc != 0:
            die_tool("generator failed: " + o[-1000:])
        e = dict(os.environ)
        e["TRACE"] = tr
        outp = os.path.join(wd, "regen.%s.tlcout" % prof)
        with open(outp, "w") as f:
            subprocess.run(["java", "-Xss1g", "-XX:+UseG1GC", "-Xmx6g", "-cp", JAR, "tlc2.TLC", "-workers", "1", "-metadir",
                            os.path.join(wd, "meta"), "-cleanup", "-noGenerateSpecTE", "-config", os.path.join(SPEC, g["cfg"]),
                            g["module"]], cwd=SPEC, stdout=f, stderr=subprocess.STDOUT, env=e)
        hits = []
        for l in open(outp, errors="replace"):
            m = ERR_LINE.match(l.rstrip("\n"))
            if m:
                ej = json.loads(json.loads(m.group(1)))
                if ej.get("why") == r.get("why"):
                    hits.append(ej)
        lines = open(tr).read().splitlines()
        shown = 0
        for ej in hits:
            subj = None
            for k in range(min(ej["line"], len(lines)) - 1, -1, -1):
                if '"ev":"reset"' in lines[k]:
                    rj = json.loads(lines[k])
                    subj = rj.get("subj") or rj.get("kind")
                    break
            if want_subj is not None and subj != want_subj:
                continue
            bad = True
            if shown < 2:
                shown += 1
                log("--- profile %s: the specification rejects line %d (%s, %s); events leading to it:" %
                    (profile_label(prof), ej["line"], ej["why"], subj))
                for k in range(max(0, ej["line"] - 8), min(ej["line"], len(lines))):
                    log("   " + lines[k][:400])
        os.remove(tr)
    if bad:
        log("VIOLATION property=%s replay=%s" % (prop, path))
        sys.exit(1)
    log("replay does not reproduce on the current tree")
    sys.exit(0)


def do_replay_trace(prop, path, r, kind, wd):
    scn = os.path.join(wd, "one.scn")
    open(scn, "w").write(json.dumps({"ops": r["scenario"]["ops"], "nslots": r["scenario"].get("nslots", 3)}) + "\n")
    bad = False
    module, cfg, runner = {"huffman": ("TraceHuffman.tla", "TraceHuffman.cfg", "huff-run"),
                           "dictionary": ("TraceDict.tla", "TraceDict.cfg", "dict-run"),
                           "dictionary-str": ("TraceDict.tla", "TraceDict.cfg", "dict-run"),
                           "dictionary-stack": ("TraceDict.tla", "TraceDict.cfg", "dict-run")}[kind]
    for prof in ("dev", "release"):
        tr = os.path.join(wd, "one.%s.ndjson" % prof)
        args = [BIN[prof], runner, scn, "--out", tr]
        if kind == "huffman":
            args += ["--ty", r.get("ty") or "u8", "--nslots", "4"]
        elif kind == "dictionary-str":
            args += ["--nslots", "5", "--as-str"]
        elif kind == "dictionary-stack":
            args += ["--nslots", "5", "--as-stack"]
        else:
            args += ["--nslots", "5"]
        rc, o = sh(args)
        if rc != 0:
            die_tool(runner + " failed: " + o[-1000:])
        e = dict(os.environ)
        e["TRACE"] = tr
        outp = os.path.join(wd, "one.%s.tlcout" % prof)
        with open(outp, "w") as f:
            subprocess.run(["java", "-Xss1g", "-cp", JAR, "tlc2.TLC", "-workers", "1", "-metadir", os.path.join(wd, "meta"),
                            "-cleanup", "-noGenerateSpecTE", "-config", os.path.join(SPEC, cfg), module],
                           cwd=SPEC, stdout=f, stderr=subprocess.STDOUT, env=e)
        log("--- profile %s: recorded events" % profile_label(prof))
        for l in open(tr):
            log("   " + l.rstrip()[:400])
        for l in open(outp):
            if l.startswith('<<"ERR"'):
                bad = True
                log("   specification rejects: " + l.strip())
    if bad:
        log("VIOLATION property=%s replay=%s" % (prop, path))
        sys.exit(1)
    log("replay does not reproduce on the current tree")
    sys.exit(0)


def do_setup():
    t0 = time.time()
    build_harness()
    check_catalogue()
    for m in sorted(glob.glob(os.path.join(SPEC, "*.tla"))):
        rc, o = sh(["java", "-cp", JAR, "tla2sany.SANY", os.path.basename(m)], cwd=SPEC, timeout=300)
        if rc != 0 or "rror" in o.replace("Semantic errors:\n\n", ""):
            if "*** Errors" in o or "Fatal" in o or rc != 0:
                log(o[-2000:])
                die_tool("SANY rejects " + m)
    log("setup ok in %.0fs" % (time.time() - t0))


def main(argv):
    if not argv:
        die_tool("usage: ./check <ID> quick|thorough | ./check <ID> --replay <file> | ./check --setup")
    try:
        if argv[0] == "--setup":
            do_setup()
            import selftest
            selftest.main_selftest(quick=True)
            return
        if argv[0] == "--selftest":
            import selftest
            selftest.main_selftest(quick=False)
            return
        prop = argv[0]
        if len(argv) >= 3 and argv[1] == "--replay":
            do_replay(prop, argv[2])
            return
        tier = argv[1] if len(argv) > 1 else os.environ.get("VERIF_TIER", "quick")
        if tier not in ("quick", "thorough"):
            die_tool("tier must be quick or thorough")
        seed = int(os.environ.get("VERIF_SEED", "1"))
        run_property(prop, tier, seed)
    except ToolError as e:
        die_tool(str(e))
