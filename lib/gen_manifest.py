#!/usr/bin/env python3
"""Regenerates /verif/MANIFEST.json from the table below (keeps it schema-valid)."""
import json, os, sys
VERIF = os.path.dirname(os.path.dirname(os.path.abspath(__file__)))
props = [json.loads(l) for l in open(os.path.join(VERIF, "properties.jsonl"))]

TRUST = ("Trusted: TLC 1.8 / tla2tools, the TLA+ modules in /verif/spec as a statement of intent, the JSON value encoding "
         "shared by spec and harness (harness/src/val.rs), rustc. Bounded: exhaustive within the constants recorded in the "
         "evidence file; beyond them the code is bound to the spec by sampled traces only.")

# id -> (engine, technique, level text, design ref)
CLAIMED = {
 "C01": ("tlc-regions", "TLC model check of RegionsMC (RoundTrip invariant) + per-transition replay on the real regions + ICMC index sequences replayed through regions + TLC trace validation of recorded histories (TraceContract, TraceHuffman, TraceDict, TraceCodedColumns)",
         "RoundTrip is an invariant of the region algebra for every catalogued composition and every bounded history; every transition of that state graph is replayed on the real types in both build profiles and the item read at the new index (through len/is_empty/get/iter/into_owned/reborrow) must equal the model's value.", "5 C01"),
 "C02": ("tlc-regions", "TLC action property AppendOnly on RegionsMC + replay re-reading every live index after each step + ICMC index sequences replayed through regions + TLC trace validation of recorded histories (TraceContract, TraceHuffman, TraceDict, TraceCodedColumns)",
         "AppendOnly is checked as an action property on the Level-B model (with structural invariants explaining why); on the code every transition that pushes or reserves is replayed and all earlier reads are compared before/after.", "5 C02"),
 "C03": ("tlc-flatstack", "TLC model check of FlatStackMC (Denote invariant) + per-transition replay on real FlatStacks + ICMC index sequences replayed through FlatStacks + TLC trace validation of recorded stack histories (TraceContract)",
         "The stack denotes the copied sequence for every index container (Vec, IndexOptimized, IndexList); each transition (copy/extend/from_iter/clear/clone/clone_from/serde/reserve/reserve_items/reserve_regions/with_capacity/merge_capacity) is replayed and len, is_empty, get(0..len+2), iteration, cloned iterators and size hints are compared with the model.", "5 C03"),
 "C04": ("tlc-regions", "TLC invariant StringsValid (Utf8.tla DFA) on string-bearing shapes + replay checking bytes of every &str + TLC trace validation of StringRegion over the dictionary codec (TraceDict) + StringAlphabet facts of the program text",
         "Every string read in the model is valid UTF-8 and was pushed into that slot; on the code every &str handed out along every replayed transition is validated byte-wise (std::str::from_utf8 on as_bytes) and must be one of the pushed strings.", "5 C04"),
 "C05": ("tlc-index", "TLC model check of ICMC over exact 64-bit words + replay of every transition on the real containers + TLC trace validation of long recorded walks (TraceIC)",
         "All push/extend/clear sequences up to the bound over the transition-covering alphabet (0, small strides, u32::MAX, u32::MAX+1, 2^63, usize::MAX-1, usize::MAX): the model proves the container denotes the pushed sequence and Stride accepts exactly the documented pattern; every transition is executed on Vec/Stride/IndexList/IndexOptimized in overflow-checked and wrapping builds (panic = mismatch). Walks of thousands of pushes (long strides, saturation, stride*count leaving usize, the u32->u64 switch, extend batches, clears, copies) recorded from the real containers are validated against the same state machine.", "5 C05"),
 "C06": ("tlc-huffman", "TLC model check of HuffmanMC (every optimal code as merge outcome) + trace validation of recorded runs against TraceHuffman",
         "Tiling of the bit axis, refusal exactly outside the statistics and code sanity are invariants of the bounded model; every history of the model and seeded random scenarios (1..1000 symbols, Fibonacci profiles, items spanning 0..2+ whole bytes at every phase, generations, wrapped items) are executed on HuffmanContainer<u8>/<u16> in both profiles; TLC validates each recorded event: measured code lengths must be an optimal prefix code for the spec's own merged statistics, bit ranges, reads and refusals must be as specified.", "5 C06"),
 "C07": ("tlc-dictionary", "TLC model check of DictMC (every admissible ranking as merge outcome) + trace validation against TraceDict",
         "RoundTrip / RefuseExact / RefusalNecessary are invariants of the bounded model; model histories and seeded random scenarios (all first bytes, entries vs prefixes vs tags, empty strings, 1..4 sources, generations, 1500 distinct strings with a dominant one) run on CodecRegion<DictionaryCodec> in both profiles; TLC validates every recorded push/merge/clear: exact bytes back or a legitimate refusal, must-code strings stored in one byte.", "5 C07"),
 "C08": ("tlc-regions", "TLC invariant ClearFresh (observational equivalence with Init) + replay against a real default twin + TLC trace validation of recorded histories with clears (TraceContract with brand-new twins, TraceIC, TraceHuffman, TraceDict, TraceCodedColumns)",
         "ClearR(st) is observationally equal to InitR for every reachable state (look-ahead EquivDepth); on the code, for every history containing a clear, the same history with the clear replaced by a brand-new region must return the same indices and reads afterwards (regions, index containers, FlatStacks).", "5 C08"),
 "C09": ("tlc-regions", "TLC model with Copy actions (identity on every Level-B field) + replay comparing copy and original + TLC trace validation of recorded histories with copies (TraceContract, TraceIC, TraceHuffman, TraceCodedColumns)",
         "After clone / clone_from (destination pre-filled) the copy must read identically, evolve independently, and answer the same continuation as the original (both real objects, compared with each other).", "5 C09"),
 "C10": ("tlc-regions", "TLC invariant MergeFresh + stuttering reserve actions; replay against a twin that never reserved + TLC trace validation of recorded merge / reservation histories (TraceContract, TraceHuffman, TraceDict, TraceCodedColumns)",
         "reserve_items / reserve_regions / FlatStack::reserve / FlatStack::reserve_items / with_capacity are stuttering steps of the model; merge_regions yields a state observationally equal to Init. On the code the history without the reservations must end in the same indices and reads, and a merged region must be empty and read back what is pushed.", "5 C10"),
 "C11": ("tlc-regions", "TLC invariant CollapseExact + replay comparing index-equality pattern and stored bytes + TLC trace validation of recorded histories (TraceContract)",
         "For collapsing regions at any depth the model fixes which pushes return the previous index; the replay requires the same equality pattern among returned indices, no byte stored when collapsed, and correct reads, around clear/merge/clone/serde.", "5 C11"),
 "C12": ("tlc-regions", "TLC invariant Dense + replay comparing numeric indices and rows + ICMC offset sequences replayed through ConsecutiveIndexPairs + TLC trace validation of recorded histories (TraceContract)",
         "Consecutive-pair and columns regions return 0,1,2,... and index k reads the k-th item with exactly its own length, across clear and merge_regions, for ragged rows 0..3 wide.", "5 C12"),
 "C13": ("tlc-regions", "TLC invariant GetExact (region-backed accessor = item accessor) + one replayed test per (item, position)",
         "get(i) returns the i-th element for i < len and panics from len on, for region-backed and owned-borrowed slice and row items with adjacent neighbours; FlatStack::get is covered by C03's replay.", "5 C13"),
 "C14": ("tlc-regions", "TLC invariant CloneOntoLaw (clone_onto written as the code's algorithm) + replayed clone_onto/borrow/push_from + TLC trace validation of Huffman read items (TraceHuffman)",
         "clone_onto(x, t) = into_owned(x) for every t of the domain; borrow_as(&into_owned(x)) renders as x; pushing a read item (region-backed or owned-borrowed) into another region yields an equal item.", "5 C14"),
 "C15": ("tlc-regions", "TLC invariant OrderLaws (oracle is a total order) + one replayed comparison per pair and representation; Huffman raw-vs-coded comparisons through TraceHuffman",
         "The lexicographic oracle CmpV is checked to be a consistent total order on the domain; every pair of items of every comparable slice composition (region-backed and owned-borrowed) is compared on the real code with ==, !=, partial_cmp, cmp in both directions and must equal the oracle's answer; raw vs Huffman-coded items are compared in recorded runs validated against LexCmp.", "5 C15"),
 "C16": ("tlc-regions", "TLC model with Serde copy action + replay through serde_json with copy-vs-original comparison + TLC trace validation of recorded histories with serde copies (TraceContract)",
         "Serialising to JSON and back yields an object that reads identically and answers the same continuation as the original (regions, index containers, FlatStacks); values JSON cannot carry (NaN) are outside the domain.", "5 C16"),
 "C17": ("tlc-alloc", "TLC invariants ReserveItemsSufficient / ReserveRegionsSufficient on the capacity-ledger operators of Regions.tla + trace validation of capacities and allocator calls against TraceAlloc",
         "On the model, what each region's reserve_items / reserve_regions / merge_regions rule reserves per backing vector is enough for exactly the announced contents (all reachable states, all batches). On the code, a counting allocator and heap_size capacities are recorded around every push of pre-sized and un-pre-sized histories; TLC decides from its own ledger which pushes are covered and requires constant capacities and zero allocator calls for them, doubling growth and a logarithmic allocator budget otherwise; FlatStacks (merge_capacity, copy, extend in small batches) are part of the recorded histories.", "5 C17"),
 "C18": ("tlc-regions", "TLC action property UsedMonotone + PayloadR lower bound; replay comparing heap_size sums and inequalities + TLC trace validation of recorded histories (TraceContract)",
         "used <= capacity pairwise, sum(used) >= the model's payload + index-entry bytes, non-decreasing on push, back to bookkeeping after clear with no capacity shrinking; the FlatStack's index container must contribute.", "5 C18"),
 "C19": ("tlc-index", "TLC invariant CostRule (documented cost computed independently from the pushed sequence) + replay of heap_size + TLC trace validation of long walks (TraceIC)",
         "For every enumerated sequence the real containers' used bytes equal the documented cost; FlatStacks with the optimised container over dense-index regions report zero index bytes (difference to a shadow region).", "5 C19"),
 "C20": ("tlc-regions", "TLC model in which the input form is an ignored argument + replay against a canonical-form twin + TLC trace validation of Huffman containers fed read items (TraceHuffman)",
         "Every (state, value, form) is a transition; the replay runs the same history with the canonical form and requires equal indices, equal stored bytes and equal reads.", "5 C20"),
}
NOT_YET = {
}
ENGINES = [
 {"name": "tlc-alloc", "path": "spec/TraceAlloc.tla", "serves_properties": ["C17"], "kind_free_text": "TLC model checking of the ledger rule (RegionsMC) and TLC trace validation of recorded capacities / allocator calls (harness alloc-run) with TraceAlloc.tla"},
 {"name": "tlc-huffman", "path": "spec/HuffmanMC.tla", "serves_properties": ["C06"], "kind_free_text": "TLC model checking of HuffmanMC.tla, scenario execution (harness huff-run) and TLC trace validation with TraceHuffman.tla"},
 {"name": "tlc-dictionary", "path": "spec/DictMC.tla", "serves_properties": ["C07"], "kind_free_text": "TLC model checking of DictMC.tla, scenario execution (harness dict-run) and TLC trace validation with TraceDict.tla"},
 {"name": "tlc-index", "path": "spec/ICMC.tla", "serves_properties": ["C05", "C19"], "kind_free_text": "TLC explicit-state model checking of IndexContainers.tla over Word64 + transition replay (harness ic-replay) + TLC trace validation of long walks (TraceIC.tla); thorough tier additionally checks the unbounded step theorems of spec/proofs with tlapm"},
 {"name": "tlc-regions", "path": "spec/RegionsMC.tla", "serves_properties": [k for k, v in CLAIMED.items() if v[0] == "tlc-regions"], "kind_free_text": "TLC model checking of the region algebra Regions.tla over the typed catalogue + transition replay (harness replay)"},
 {"name": "tlc-flatstack", "path": "spec/FlatStackMC.tla", "serves_properties": ["C03"], "kind_free_text": "TLC model checking of FlatStackMC.tla + transition replay (harness stack-replay)"},
]

def main():
    checks = []
    for p in props:
        i = p["id"]
        if i not in CLAIMED:
            continue
        eng, tech, text, ref = CLAIMED[i]
        checks.append({"property_id": i, "quick_cmd": "./check %s quick" % i, "thorough_cmd": "./check %s thorough" % i,
                       "evidence_file": "evidence/%s.json" % i, "replay_cmd_template": "./check %s --replay {path}" % i,
                       "engine": eng,
                       "level_claimed": {"category": "model_checking", "text": text, "design_ref": "DESIGN.md section " + ref},
                       "level_note": TRUST, "technique": tech})
    m = {"version": 1, "setup_cmd": "./check --setup",
         "hooks": {"guard": "flatcontainer_verif",
                   "enable": "no hooks are compiled into /repo: every observable the properties name is public API; the guard name is reserved and unused",
                   "baseline_off_cmd": "cd /repo && cargo test --workspace --no-fail-fast --offline",
                   "source_commits": [], "add_only": True},
         "engines": ENGINES, "checks": checks,
         "notes": "Model-based verification with explicit TLA+ specifications (spec/), TLC, and a Rust conformance harness (harness/). See DESIGN.md.",
         "not_applicable": [{"property_id": k, "reason": v} for k, v in NOT_YET.items() if k not in CLAIMED]}
    json.dump(m, open(os.path.join(VERIF, "MANIFEST.json"), "w"), indent=1)

if __name__ == "__main__":
    main()
