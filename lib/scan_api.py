#!/usr/bin/env python3
"""Syntactic scan of /repo/src for the facts spec/StringAlphabet.tla checks (C04, program-text half)."""
import os, re, json, sys

def strip_comments(src):
    out = []
    i, n = 0, len(src)
    while i < n:
        if src.startswith("//", i):
            j = src.find("\n", i)
            j = n if j < 0 else j
            out.append(" " * (j - i))
            i = j
        elif src.startswith("/*", i):
            j = src.find("*/", i + 2)
            j = n if j < 0 else j + 2
            out.append(re.sub(r"[^\n]", " ", src[i:j]))
            i = j
        elif src[i] == '"':
            j = i + 1
            while j < n and src[j] != '"':
                j += 2 if src[j] == "\\" else 1
            out.append('"' + re.sub(r"[^\n]", " ", src[i + 1:j]) + '"')
            i = j + 1
        else:
            out.append(src[i])
            i += 1
    return "".join(out)

def enclosing_fn(text, pos):
    m = None
    for m in re.finditer(r"\bfn\s+([A-Za-z_][A-Za-z0-9_]*)", text[:pos]):
        pass
    return m.group(1) if m else ""

def block_after(text, pos):
    i = text.find("{", pos)
    depth, j = 0, i
    while j < len(text):
        if text[j] == "{":
            depth += 1
        elif text[j] == "}":
            depth -= 1
            if depth == 0:
                return text[i:j + 1]
        j += 1
    return text[i:]

def scan(root):
    facts = {"unsafe_sites": [], "unchecked_conversions": [], "string_push_types": [], "string_push_bodies": [],
             "string_inner_public": False, "string_mut_accessors": []}
    for d, _, files in os.walk(os.path.join(root, "src")):
        for f in sorted(files):
            if not f.endswith(".rs"):
                continue
            path = os.path.join(d, f)
            rel = os.path.relpath(path, root)
            text = strip_comments(open(path).read())
            # unit tests are not part of the library's write paths
            lib = text.split("#[cfg(test)]")[0]
            for m in re.finditer(r"\bunsafe\b", lib):
                blk = block_after(lib, m.end()) if lib[m.end():].lstrip().startswith("{") else lib[m.end():m.end() + 200]
                facts["unsafe_sites"].append({"file": rel, "line": lib.count("\n", 0, m.start()) + 1,
                                              "function": enclosing_fn(lib, m.start()),
                                              "uses_unchecked": "from_utf8_unchecked" in blk})
            for m in re.finditer(r"from_utf8_unchecked|from_utf8_unchecked_mut|from_raw_parts|transmute", lib):
                facts["unchecked_conversions"].append({"file": rel, "line": lib.count("\n", 0, m.start()) + 1, "what": m.group(0)})
            for m in re.finditer(r"impl\s*(<[^{]*?>)?\s*Push<\s*([^{]*?)\s*>\s*for\s+StringRegion\b", lib):
                ty = re.sub(r"\s+", "", m.group(2))
                ty = re.sub(r"'[a-z_]+", "", ty)          # drop lifetimes
                facts["string_push_types"].append(ty)
                body = block_after(lib, m.end())
                fnbody = block_after(body, body.find("fn push")) if "fn push" in body else ""
                calls = re.sub(r"\s+", "", fnbody)
                # the body may be refactored freely as long as what it stores is derived from `item`
                # by safe code: no unsafe, no raw byte construction
                ok = "item" in calls and not re.search(r"unsafe|transmute|from_raw|as_bytes_mut|as_mut_vec|from_utf8_unchecked", calls)
                facts["string_push_bodies"].append({"type": ty, "body": calls[:200], "forwards_string_view": ok})
            if rel.endswith("string.rs"):
                sm = re.search(r"pub\s+struct\s+StringRegion[^{]*\{([^}]*)\}", lib)
                if sm and re.search(r"\bpub(\([a-z]+\))?\s+inner\b", sm.group(1)):
                    facts["string_inner_public"] = True
                for m in re.finditer(r"fn\s+([A-Za-z_0-9]+)\s*(<[^>]*>)?\s*\(\s*&mut\s+self[^)]*\)\s*->\s*&mut\b", lib):
                    facts["string_mut_accessors"].append(m.group(1))
                for m in re.finditer(r"impl[^{]*\b(DerefMut|AsMut|BorrowMut)\b[^{]*for\s+StringRegion", lib):
                    facts["string_mut_accessors"].append(m.group(1))
    return facts

if __name__ == "__main__":
    json.dump(scan(sys.argv[1] if len(sys.argv) > 1 else "/repo"), sys.stdout, indent=1)
