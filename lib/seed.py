#!/usr/bin/env python3
"""Seeded-change bookkeeping.

  seed.py import <worktree> <seedN> <name>   verify a sub-agent's change in its scratch worktree and store it
                                             under /verif/seeded/<name>/ (patch.diff, demo.rs, meta.json)
  seed.py run <name> [<prop> ...]            apply /verif/seeded/<name>/patch.diff to /repo, run the quick checks
                                             of the given properties (default: the property it breaks), undo,
                                             and record which checks caught it in meta.json
"""
import sys, os, json, subprocess, shutil, glob, time

VERIF = os.path.dirname(os.path.dirname(os.path.abspath(__file__)))
SEEDED = os.path.join(VERIF, "seeded")


def sh(cmd, cwd=None, timeout=3000):
    p = subprocess.run(cmd, cwd=cwd, stdout=subprocess.PIPE, stderr=subprocess.STDOUT, text=True, timeout=timeout,
                       env=dict(os.environ, CARGO_NET_OFFLINE="true"))
    return p.returncode, p.stdout


def existing_tests(wt):
    return [os.path.basename(f)[:-3] for f in glob.glob(os.path.join(wt, "tests", "*.rs")) if not os.path.basename(f).startswith("demo_")]


def run_suite(wt):
    """the repository's own suite, without the demonstration tests"""
    args = ["cargo", "test", "--offline", "--lib", "--doc"]
    rc1, o1 = sh(["cargo", "test", "--offline", "--lib"], cwd=wt)
    rc2, o2 = sh(["cargo", "test", "--offline", "--doc"], cwd=wt)
    rc3, o3 = 0, ""
    for t in existing_tests(wt):
        r, o = sh(["cargo", "test", "--offline", "--test", t], cwd=wt)
        rc3 |= r
        o3 += o
    return rc1 == 0 and rc2 == 0 and rc3 == 0, (o1 + o2 + o3)[-1500:]


def do_import(wt, seed, name):
    patch = os.path.join(wt, seed + ".patch")
    demo = os.path.join(wt, "tests", "demo_%s.rs" % seed)
    meta = json.load(open(os.path.join(wt, seed + ".meta.json")))
    rc, o = sh(["git", "diff", "--quiet", "--", "src"], cwd=wt)
    if rc != 0:
        sh(["git", "checkout", "--", "src"], cwd=wt)
    # demo passes without the patch
    rc, o = sh(["cargo", "test", "--offline", "--test", "demo_" + seed], cwd=wt)
    passes_without = rc == 0
    rc, o = sh(["git", "apply", patch], cwd=wt)
    if rc != 0:
        print("patch does not apply:", o)
        return 1
    try:
        suite_ok, so = run_suite(wt)
        rc, o = sh(["cargo", "test", "--offline", "--test", "demo_" + seed], cwd=wt)
        fails_with = rc != 0
    finally:
        sh(["git", "checkout", "--", "src"], cwd=wt)
    print("demo passes without patch:", passes_without, "| suite passes with patch:", suite_ok, "| demo fails with patch:", fails_with)
    if not (passes_without and suite_ok and fails_with):
        print(so)
        print("NOT KEPT")
        return 1
    d = os.path.join(SEEDED, name)
    os.makedirs(d, exist_ok=True)
    shutil.copy(patch, os.path.join(d, "patch.diff"))
    shutil.copy(demo, os.path.join(d, "demo.rs"))
    m = {"id": name, "property": meta.get("property"), "summary": meta.get("summary"), "needs": meta.get("needs"),
         "origin": "independent sub-agent given only the property text and a scratch worktree",
         "confirmed": {"how": "in the scratch worktree: git apply patch.diff; cargo test --offline --lib/--doc/--test <existing>; "
                              "cargo test --offline --test demo (copy demo.rs to tests/); with and without the patch",
                       "suite_passes_with_patch": suite_ok, "demo_fails_with_patch": fails_with,
                       "demo_passes_without_patch": passes_without,
                       "base_commit": sh(["git", "rev-parse", "HEAD"], cwd=wt)[1].strip()},
         "checks": {}}
    json.dump(m, open(os.path.join(d, "meta.json"), "w"), indent=1)
    print("kept as", d)
    return 0


def do_run(name, props, repo="/repo"):
    """repo = /repo (the prescribed way) or a scratch git worktree of /repo at the same commit: the checks then
    run with FC_REPO=<worktree> on a private copy of the harness, so several changes can be evaluated at once."""
    d = os.path.join(SEEDED, name)
    m = json.load(open(os.path.join(d, "meta.json")))
    if not props:
        props = [m["property"]]
    rc, o = sh(["git", "status", "--porcelain", "--untracked-files=no"], cwd=repo)
    if o.strip():
        print(repo, "is not clean:", o)
        return 2
    rc, o = sh(["git", "-C", repo, "apply", os.path.join(d, "patch.diff")])
    if rc != 0:
        print("patch does not apply to", repo, ":", o)
        return 2
    head = sh(["git", "-C", repo, "rev-parse", "--short", "HEAD"])[1].strip()
    try:
        for p in props:
            t0 = time.time()
            env = dict(os.environ, CARGO_NET_OFFLINE="true")
            if repo != "/repo":
                env["FC_REPO"] = repo
            pr = subprocess.run([os.path.join(VERIF, "check"), p, "quick"], cwd=VERIF, stdout=subprocess.PIPE,
                                stderr=subprocess.STDOUT, text=True, timeout=4000, env=env)
            rc, o = pr.returncode, pr.stdout
            sigs = sorted({l.split("signature:")[1].split("|")[0].strip() for l in o.splitlines() if "signature:" in l})
            verdict = {0: "missed", 1: "caught", 2: "tool-error"}.get(rc, "rc%d" % rc)
            m["checks"][p] = {"result": verdict, "signatures": sigs[:6], "seconds": round(time.time() - t0),
                              "ran": "git -C %s apply patch.diff; %s./check %s quick; git checkout -- . (tree at %s)" %
                                     (repo, ("FC_REPO=%s " % repo) if repo != "/repo" else "", p, head)}
            print(name, p, verdict, sigs[:4])
            if rc == 2:
                print(o[-1500:])
    finally:
        sh(["git", "-C", repo, "checkout", "--", "."])
    # several workers may update different meta files concurrently; each file has one writer
    json.dump(m, open(os.path.join(d, "meta.json"), "w"), indent=1)
    return 0


def do_report():
    rows = []
    for d in sorted(glob.glob(os.path.join(SEEDED, "*", "meta.json"))):
        m = json.load(open(d))
        caught = [p for p, r in m.get("checks", {}).items() if r["result"] == "caught"]
        missed = [p for p, r in m.get("checks", {}).items() if r["result"] == "missed"]
        rows.append((m["id"], m.get("property"), (m.get("summary") or "").replace("\n", " ")[:150], ", ".join(caught) or "-", ", ".join(missed) or "-"))
    out = ["# Seeded changes", "",
           "Each directory holds `patch.diff` (apply with `git -C /repo apply`), `demo.rs` (an integration test that fails with",
           "the patch and passes without it) and `meta.json` (what it needs to manifest, how it was confirmed, which quick",
           "checks were run against it and what they reported). All were written by independent sub-agents that saw only the",
           "property text and a scratch worktree.", "",
           "| change | breaks | what was changed | caught by (quick) | not caught by |", "|---|---|---|---|---|"]
    for r in rows:
        out.append("| %s | %s | %s | %s | %s |" % r)
    open(os.path.join(SEEDED, "README.md"), "w").write("\n".join(out) + "\n")
    print("\n".join(out[-len(rows):]))


if __name__ == "__main__":
    if sys.argv[1] == "report":
        do_report()
        sys.exit(0)
    if sys.argv[1] == "import":
        sys.exit(do_import(sys.argv[2], sys.argv[3], sys.argv[4]))
    elif sys.argv[1] == "run":
        args = sys.argv[2:]
        repo = "/repo"
        if args[0] == "--repo":
            repo = args[1]
            args = args[2:]
        sys.exit(do_run(args[0], args[1:], repo))
