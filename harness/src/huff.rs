//! HuffmanContainer scenarios: executes operation lists (from HuffmanMC or the random generator)
//! on `HuffmanContainer<u8>` / `<u16>` and records an ndjson trace for TraceHuffman.tla.
//!
//! After every merge the code lengths are measured through the public API only: each probe symbol
//! is pushed as a one-symbol item into a CLONE of the merged container; the difference of the
//! returned bit offsets is its code length, a panic means the symbol is outside the code.
use crate::util::*;
use flatcontainer::impls::huffman_container::HuffmanContainer;
use flatcontainer::{IntoOwned, Push, Region};
use rand::rngs::StdRng;
use rand::{Rng, SeedableRng};
use serde_json::{json, Value};
use std::io::Write;

pub trait Sym: Ord + Clone + Sized + std::fmt::Debug + 'static {
    fn from_u64(x: u64) -> Self;
    fn to_u64(&self) -> u64;
    const NAME: &'static str;
}
impl Sym for u8 {
    fn from_u64(x: u64) -> Self {
        x as u8
    }
    fn to_u64(&self) -> u64 {
        *self as u64
    }
    const NAME: &'static str = "u8";
}
impl Sym for u16 {
    fn from_u64(x: u64) -> Self {
        x as u16
    }
    fn to_u64(&self) -> u64 {
        *self as u64
    }
    const NAME: &'static str = "u16";
}

struct HSlot<B: Sym> {
    c: HuffmanContainer<B>,
    ids: Vec<(usize, usize)>,
    /// what was pushed for each id (the owned value a comparison of read items must agree with)
    vals: Vec<Value>,
    first_reads: Vec<Value>,
    dead: bool,
    /// cleared at some point and only fed plain pushes since: a brand-new container fed `vals` is its twin (C08)
    cleared: bool,
}

fn item_of<B: Sym>(v: &Value) -> Vec<B> {
    v.as_array().map(|a| a.iter().map(|x| B::from_u64(x.as_u64().unwrap())).collect()).unwrap_or_default()
}
fn json_of<B: Sym>(v: &[B]) -> Value {
    Value::Array(v.iter().map(|x| json!(x.to_u64())).collect())
}

/// read one item through every accessor: into_owned, the decoding iterator, Debug, clone_onto.
/// Returns the rendering (or an error marker) plus whether clone_onto(longer / shorter / empty target)
/// left the target equal to the item (C14).
fn read_item_full<B: Sym>(c: &HuffmanContainer<B>, idx: (usize, usize)) -> (Value, bool) {
    let r = guarded(|| {
        let owned: Vec<B> = c.index(idx).into_owned();
        let w = c.index(idx);
        let via_decode: Vec<B> = match w.decode() {
            Ok(it) => it.cloned().collect(),
            Err(s) => s.to_vec(),
        };
        let dbg = format!("{:?}", c.index(idx));
        let want_dbg = format!("{:?}", owned);
        let mut onto_ok = true;
        for target_len in [0usize, 1, owned.len() + 3, 9] {
            let mut target: Vec<B> = (0..target_len).map(|k| B::from_u64(200 + k as u64)).collect();
            c.index(idx).clone_onto(&mut target);
            onto_ok &= target == owned;
        }
        if owned != via_decode {
            return (json!({"INCONSISTENT": "into_owned vs decode", "a": json_of(&owned), "b": json_of(&via_decode)}), onto_ok);
        }
        if dbg != want_dbg {
            return (json!({"INCONSISTENT": "Debug", "a": dbg, "b": want_dbg}), onto_ok);
        }
        (json_of(&owned), onto_ok)
    });
    match r {
        Ok(v) => v,
        Err(m) => (json!({"PANIC": m}), true),
    }
}

fn read_item<B: Sym>(c: &HuffmanContainer<B>, idx: (usize, usize)) -> Value {
    read_item_full(c, idx).0
}

fn push_form<B: Sym>(c: &mut HuffmanContainer<B>, form: &str, v: &[B]) -> (usize, usize) {
    match form {
        "vec" => c.push(v.to_vec()),
        "ref_vec" => c.push(&v.to_vec()),
        "array" => match v.len() {
            0 => c.push([] as [B; 0]),
            1 => c.push([v[0].clone()]),
            2 => c.push([v[0].clone(), v[1].clone()]),
            3 => c.push([v[0].clone(), v[1].clone(), v[2].clone()]),
            _ => c.push(v),
        },
        "ref_array" => match v.len() {
            0 => c.push(&([] as [B; 0])),
            1 => c.push(&[v[0].clone()]),
            2 => c.push(&[v[0].clone(), v[1].clone()]),
            _ => c.push(v),
        },
        _ => c.push(v),
    }
}

const FORMS: [&str; 5] = ["slice", "vec", "ref_vec", "array", "ref_array"];

/// Execute one scenario; append its events to `out`. `probe` = symbols whose code length is measured.
pub fn run_scenario<B: Sym, W: Write>(run: u64, ops: &[Value], nslots: usize, probe: &[u64], out: &mut W) {
    let mut slots: Vec<HSlot<B>> = (0..nslots).map(|_| HSlot { c: HuffmanContainer::default(), ids: vec![], vals: vec![], first_reads: vec![], dead: false, cleared: false }).collect();
    writeln!(out, "{}", json!({"ev": "reset", "run": run, "ty": B::NAME, "nslots": nslots})).unwrap();
    let mut seq = 0u64;
    for (opi, op) in ops.iter().enumerate() {
        seq += 1;
        let name = op["op"].as_str().unwrap_or("");
        match name {
            "push" | "push_from" => {
                let s = op[if name == "push" { "s" } else { "d" }].as_u64().unwrap() as usize - 1;
                if slots[s].dead {
                    continue;
                }
                let form = op["form"].as_str().map(|x| x.to_string()).unwrap_or_else(|| FORMS[opi % FORMS.len()].to_string());
                // the value: given, or the read item of another container
                let (v, src): (Vec<B>, Option<(usize, usize)>) = if name == "push" {
                    (item_of::<B>(&op["v"]), None)
                } else {
                    let from = op["s"].as_u64().unwrap() as usize - 1;
                    let i = op["i"].as_u64().unwrap() as usize;
                    if slots[from].dead || i >= slots[from].ids.len() {
                        continue;
                    }
                    let val: Vec<B> = match guarded(|| slots[from].c.index(slots[from].ids[i]).into_owned()) {
                        Ok(v) => v,
                        Err(_) => continue,
                    };
                    (val, Some((from, i)))
                };
                let res = match src {
                    None => {
                        let c = &mut slots[s].c;
                        guarded(|| push_form(c, &form, &v))
                    }
                    Some((from, i)) => {
                        if from == s {
                            let copy = slots[from].c.clone();
                            let idx = slots[from].ids[i];
                            let c = &mut slots[s].c;
                            guarded(|| c.push(copy.index(idx)))
                        } else {
                            let (a, b) = if s < from {
                                let (x, y) = slots.split_at_mut(from);
                                (&mut x[s], &y[0])
                            } else {
                                let (x, y) = slots.split_at_mut(s);
                                (&mut y[0], &x[from])
                            };
                            let idx = b.ids[i];
                            guarded(|| a.c.push(b.c.index(idx)))
                        }
                    }
                };
                match res {
                    Err(m) => {
                        slots[s].dead = true;
                        writeln!(out, "{}", json!({"ev": "push", "run": run, "seq": seq, "s": s + 1, "v": json_of(&v), "form": if src.is_some() { "wrapped".to_string() } else { form }, "panic": true, "msg": m.chars().take(80).collect::<String>()})).unwrap();
                    }
                    Ok(idx) => {
                        let sl = &mut slots[s];
                        sl.ids.push(idx);
                        sl.vals.push(json_of(&v));
                        let (read, onto_ok) = read_item_full(&sl.c, idx);
                        // re-read every earlier item: must still render as when first read
                        let mut stable = true;
                        let mut changed = json!("");
                        for k in 0..sl.first_reads.len() {
                            let now = read_item(&sl.c, sl.ids[k]);
                            if now != sl.first_reads[k] {
                                stable = false;
                                changed = json!(format!("id {k}: first {} now {}", sl.first_reads[k], now));
                                break;
                            }
                        }
                        sl.first_reads.push(read.clone());
                        // a read that is not a plain symbol sequence (panic / accessors disagree) travels as text
                        let (read_val, read_err) = if read.is_array() { (read.clone(), String::new()) } else { (json!([]), read.to_string()) };
                        writeln!(out, "{}", json!({"ev": "push", "run": run, "seq": seq, "s": s + 1, "v": json_of(&v), "form": if src.is_some() { "wrapped".to_string() } else { form }, "panic": false,
                            "idx": [idx.0, idx.1], "read": read_val, "read_err": read_err, "onto_ok": onto_ok, "stable": stable, "changed": changed})).unwrap();
                    }
                }
            }
            "merge" => {
                let d = op["d"].as_u64().unwrap() as usize - 1;
                let srcs: Vec<usize> = op["srcs"].as_array().map(|a| a.iter().map(|x| x.as_u64().unwrap() as usize - 1).collect()).unwrap_or_default();
                if srcs.iter().any(|&x| slots[x].dead) {
                    continue;
                }
                let merged = {
                    let refs: Vec<&HuffmanContainer<B>> = srcs.iter().map(|&x| &slots[x].c).collect();
                    guarded(|| HuffmanContainer::<B>::merge_regions(refs.as_slice().iter().map(|r| *r)))
                };
                match merged {
                    Err(m) => {
                        writeln!(out, "{}", json!({"ev": "merge", "run": run, "seq": seq, "d": d + 1, "srcs": op["srcs"], "panic": true, "msg": m.chars().take(80).collect::<String>()})).unwrap();
                        slots[d].dead = true;
                    }
                    Ok(c) => {
                        // measure the code through the public API: one-symbol items pushed into a clone;
                        // a refused symbol panics and spoils that clone, so a new one is taken
                        let mut lens: Vec<Value> = vec![];
                        let mut cl = c.clone();
                        for &p in probe {
                            let sym = B::from_u64(p);
                            match guarded(|| cl.push([sym].as_slice())) {
                                Ok((a, b)) => lens.push(json!([p, b - a])),
                                Err(_) => cl = c.clone(),
                            }
                        }
                        // C08: where a source had been cleared, the same merge over brand-new twins (fed what the cleared
                        // containers received since) must yield a code for the same symbols
                        let mut fresh_same = true;
                        if srcs.iter().any(|&x| slots[x].cleared) {
                            let twins: Vec<Option<HuffmanContainer<B>>> = srcs.iter().map(|&x| {
                                if !slots[x].cleared {
                                    return None;
                                }
                                let mut t = HuffmanContainer::<B>::default();
                                for v in &slots[x].vals {
                                    let item: Vec<B> = item_of(v);
                                    t.push(item.as_slice());
                                }
                                Some(t)
                            }).collect();
                            let refs: Vec<&HuffmanContainer<B>> = srcs.iter().zip(twins.iter()).map(|(&x, t)| t.as_ref().unwrap_or(&slots[x].c)).collect();
                            if let Ok(tc) = guarded(|| HuffmanContainer::<B>::merge_regions(refs.as_slice().iter().map(|r| *r))) {
                                let mut tl: Vec<u64> = vec![];
                                let mut cl = tc.clone();
                                for &p in probe {
                                    let sym = B::from_u64(p);
                                    match guarded(|| cl.push([sym].as_slice())) {
                                        Ok(_) => tl.push(p),
                                        Err(_) => cl = tc.clone(),
                                    }
                                }
                                let dom: Vec<u64> = lens.iter().map(|l| l[0].as_u64().unwrap()).collect();
                                fresh_same = dom == tl;
                            }
                        }
                        slots[d] = HSlot { c, ids: vec![], vals: vec![], first_reads: vec![], dead: false, cleared: false };
                        writeln!(out, "{}", json!({"ev": "merge", "run": run, "seq": seq, "d": d + 1, "srcs": op["srcs"], "panic": false, "lens": lens, "fresh_same": fresh_same})).unwrap();
                    }
                }
            }
            "clone" | "clone_from" => {
                // C09 for coded containers: d becomes a copy of s (clone_from into whatever d holds)
                let (d, sidx) = (op["d"].as_u64().unwrap() as usize - 1, op["s"].as_u64().unwrap() as usize - 1);
                if d == sidx || slots[sidx].dead || (name == "clone_from" && slots[d].dead) {
                    continue;
                }
                let res = if name == "clone" {
                    guarded(|| slots[sidx].c.clone()).map(Some)
                } else {
                    let (a, b) = if d < sidx {
                        let (x, y) = slots.split_at_mut(sidx);
                        (&mut x[d], &y[0])
                    } else {
                        let (x, y) = slots.split_at_mut(d);
                        (&mut y[0], &x[sidx])
                    };
                    guarded(|| a.c.clone_from(&b.c)).map(|_| None)
                };
                match res {
                    Err(m) => {
                        slots[d].dead = true;
                        writeln!(out, "{}", json!({"ev": "copy", "kind": name, "run": run, "seq": seq, "d": d + 1, "s": sidx + 1, "panic": true, "msg": m, "same": false})).unwrap();
                    }
                    Ok(c) => {
                        if let Some(c) = c {
                            slots[d].c = c;
                        }
                        slots[d].ids = slots[sidx].ids.clone();
                        slots[d].vals = slots[sidx].vals.clone();
                        slots[d].cleared = false;
                        slots[d].first_reads = slots[sidx].first_reads.clone();
                        slots[d].dead = false;
                        // the copy reads like the source at every issued index
                        let mut same = true;
                        for k in 0..slots[d].ids.len() {
                            if read_item(&slots[d].c, slots[d].ids[k]) != slots[d].first_reads[k] {
                                same = false;
                            }
                        }
                        writeln!(out, "{}", json!({"ev": "copy", "kind": name, "run": run, "seq": seq, "d": d + 1, "s": sidx + 1, "panic": false, "same": same})).unwrap();
                    }
                }
            }
            "clear" => {
                let s = op["s"].as_u64().unwrap() as usize - 1;
                if slots[s].dead {
                    continue;
                }
                let r = {
                    let c = &mut slots[s].c;
                    guarded(|| c.clear())
                };
                slots[s].ids.clear();
                slots[s].vals.clear();
                slots[s].cleared = true;
                slots[s].first_reads.clear();
                writeln!(out, "{}", json!({"ev": "clear", "run": run, "seq": seq, "s": s + 1, "panic": r.is_err()})).unwrap();
                if r.is_err() {
                    slots[s].dead = true;
                }
            }
            "cmp" => {
                let (a, b) = (op["s"].as_u64().unwrap() as usize - 1, op["s2"].as_u64().unwrap() as usize - 1);
                let (i, j) = (op["i"].as_u64().unwrap() as usize, op["i2"].as_u64().unwrap() as usize);
                if slots[a].dead || slots[b].dead || i >= slots[a].ids.len() || j >= slots[b].ids.len() {
                    continue;
                }
                let r = guarded(|| {
                    let x = slots[a].c.index(slots[a].ids[i]);
                    let y = slots[b].c.index(slots[b].ids[j]);
                    let o = |c: Option<std::cmp::Ordering>| match c {
                        None => "none",
                        Some(std::cmp::Ordering::Less) => "lt",
                        Some(std::cmp::Ordering::Equal) => "eq",
                        Some(std::cmp::Ordering::Greater) => "gt",
                    };
                    json!({"eq": x == y, "partial_cmp": o(x.partial_cmp(&y)), "cmp": o(Some(x.cmp(&y))), "rev_cmp": o(Some(y.cmp(&x)))})
                });
                match r {
                    Ok(v) => writeln!(out, "{}", json!({"ev": "cmp", "run": run, "seq": seq, "s": a + 1, "i": i, "s2": b + 1, "i2": j, "va": slots[a].vals[i], "vb": slots[b].vals[j], "panic": false, "r": v})).unwrap(),
                    Err(m) => writeln!(out, "{}", json!({"ev": "cmp", "run": run, "seq": seq, "s": a + 1, "i": i, "s2": b + 1, "i2": j, "va": slots[a].vals[i], "vb": slots[b].vals[j], "panic": true, "msg": m})).unwrap(),
                }
            }
            o => {
                eprintln!("TOOL-ERROR: unknown huffman op {o}");
                std::process::exit(2)
            }
        }
    }
}

fn probe_set(ops: &[Value]) -> Vec<u64> {
    let mut set = std::collections::BTreeSet::new();
    for op in ops {
        if let Some(a) = op["v"].as_array() {
            for x in a {
                set.insert(x.as_u64().unwrap());
            }
        }
    }
    set.insert(250); // a symbol no scenario uses: must always be refused by a coded container
    set.into_iter().collect()
}

/// `huff-run <scenarios> --ty u8|u16 --out trace.ndjson`
pub fn cmd_run(file: &str, ty: &str, out: &str, nslots: usize) {
    quiet_panics();
    let f = std::fs::File::create(out).expect("create trace");
    let mut w = std::io::BufWriter::new(f);
    let mut run = 0u64;
    let text = std::fs::read_to_string(file).expect("read scenarios");
    for line in text.lines() {
        let scn: Value = if line.starts_with("<<\"SCN\"") {
            let lit = line.trim_end().strip_prefix("<<\"SCN\", ").and_then(|r| r.strip_suffix(">>")).expect("scn line");
            let inner: String = serde_json::from_str(lit).expect("scn literal");
            serde_json::from_str(&inner).expect("scn json")
        } else if line.starts_with('{') {
            serde_json::from_str(line).expect("scenario json")
        } else {
            continue;
        };
        run += 1;
        let ops = scn["ops"].as_array().cloned().unwrap_or_default();
        let n = scn["nslots"].as_u64().map(|x| x as usize).unwrap_or(nslots);
        let probe = probe_set(&ops);
        // HuffmanContainer::merge_regions prints to stdout: results go to the trace file only
        match ty {
            "u8" => run_scenario::<u8, _>(run, &ops, n, &probe, &mut w),
            _ => run_scenario::<u16, _>(run, &ops, n, &probe, &mut w),
        }
    }
    w.flush().unwrap();
    eprintln!("huff-run: {run} scenarios");
}

/// Random scenarios beyond the model's bounds: large alphabets, skewed profiles, long items.
/// Comparison-heavy scenarios (C15): the same small items stored raw and Huffman-coded, prefixes of
/// one another, equal content in different containers, different lengths; all pairs compared.
pub fn cmd_gen_cmp(seed: u64, count: usize, out: &str, ty: &str) {
    let mut rng = StdRng::seed_from_u64(seed);
    let mut f = std::io::BufWriter::new(std::fs::File::create(out).expect("create"));
    let maxsym: u64 = if ty == "u8" { 250 } else { 60000 };
    for scn in 0..count {
        // every fifth scenario: 11-13 symbols with frequencies 1, 1, 2, 4, ... so that the rare symbols get codes
        // longer than 8 bits (the decoder's second-level tables), and items that END in those symbols
        let deep = scn % 5 == 4;
        let nsym = if deep { rng.gen_range(11..14) } else { rng.gen_range(1..5) };
        let mut syms: Vec<u64> = vec![];
        while syms.len() < nsym {
            let s = rng.gen_range(0..maxsym);
            if !syms.contains(&s) {
                syms.push(s);
            }
        }
        syms.sort();
        let nitems = rng.gen_range(3..6);
        let mut items: Vec<Vec<u64>> = vec![vec![]];
        while items.len() < nitems {
            let base = items[rng.gen_range(0..items.len())].clone();
            let mut it = base;
            match rng.gen_range(0..3) {
                0 => it.push(syms[rng.gen_range(0..syms.len())]),
                1 => {
                    it = (0..rng.gen_range(1..10)).map(|_| syms[rng.gen_range(0..syms.len())]).collect();
                }
                _ => {
                    if let Some(l) = it.last_mut() {
                        *l = syms[rng.gen_range(0..syms.len())];
                    } else {
                        it.push(syms[0]);
                    }
                }
            }
            items.push(it);
        }
        if deep {
            let (common, rare, rare2) = (syms[nsym - 1], syms[0], syms[1]);
            items.push(vec![common, rare]);
            items.push(vec![rare]);
            items.push(vec![rare2, common, rare2]);
            items.push(vec![common, common, common, rare]);
        }
        let mut ops: Vec<Value> = vec![];
        for it in &items {
            ops.push(json!({"op": "push", "s": 1, "v": it}));
        }
        // make sure every symbol is in the statistics
        if deep {
            let mut skewed: Vec<u64> = vec![];
            for (k, sy) in syms.iter().enumerate() {
                for _ in 0..(1u32 << k.saturating_sub(1)) {
                    skewed.push(*sy);
                }
            }
            ops.push(json!({"op": "push", "s": 2, "v": skewed}));
        }
        ops.push(json!({"op": "push", "s": 2, "v": syms}));
        ops.push(json!({"op": "merge", "d": 3, "srcs": [1, 2]}));
        let mut order: Vec<usize> = (0..items.len()).collect();
        for i in (1..order.len()).rev() {
            order.swap(i, rng.gen_range(0..=i));
        }
        for &k in &order {
            ops.push(json!({"op": "push", "s": 3, "v": items[k]}));
        }
        // a second coded container with a DIFFERENT code table (statistics skewed the other way)
        let mut skew: Vec<u64> = vec![];
        for (k, s) in syms.iter().rev().enumerate() {
            for _ in 0..(1 + 3 * k) {
                skew.push(*s);
            }
        }
        ops.push(json!({"op": "push", "s": 4, "v": skew}));
        ops.push(json!({"op": "merge", "d": 4, "srcs": [4]}));
        for &k in &order {
            ops.push(json!({"op": "push", "s": 4, "v": items[k]}));
        }
        let n = items.len();
        let pos_in_order = |k: usize| order.iter().position(|x| *x == k).unwrap();
        for i in 0..n {
            for j in 0..n {
                // raw vs coded, coded vs raw, coded vs coded (same and different code tables), raw vs raw
                ops.push(json!({"op": "cmp", "s": 1, "i": i, "s2": 3, "i2": j}));
                ops.push(json!({"op": "cmp", "s": 3, "i": i, "s2": 1, "i2": j}));
                ops.push(json!({"op": "cmp", "s": 3, "i": pos_in_order(i), "s2": 4, "i2": pos_in_order(j)}));
                if (i + j) % 2 == 0 {
                    ops.push(json!({"op": "cmp", "s": 3, "i": i, "s2": 3, "i2": j}));
                    ops.push(json!({"op": "cmp", "s": 1, "i": i, "s2": 1, "i2": j}));
                    ops.push(json!({"op": "cmp", "s": 4, "i": i, "s2": 3, "i2": j}));
                }
            }
        }
        writeln!(f, "{}", json!({"nslots": 4, "ops": ops})).unwrap();
    }
}

pub fn cmd_gen(seed: u64, count: usize, out: &str, ty: &str, small: bool) {
    let mut rng = StdRng::seed_from_u64(seed);
    let mut f = std::io::BufWriter::new(std::fs::File::create(out).expect("create"));
    let maxsym: u64 = if ty == "u8" { 200 } else { 60000 };
    for k in 0..count {
        let mut ops: Vec<Value> = vec![];
        // profile kinds; `small` leaves out the alphabets of hundreds of symbols (slow to validate)
        let kind = if small && k % 8 == 3 { 7 } else { k % 8 };
        let (nsym, profile): (usize, Vec<u64>) = match kind {
            0 => (1, vec![rng.gen_range(1..6)]),
            1 => {
                let n = rng.gen_range(2..9);
                (n, vec![rng.gen_range(1..4); n])
            }
            2 => {
                // Fibonacci counts force long codes (up to n-1 bits)
                let n = rng.gen_range(6..22);
                let mut c = vec![1u64, 1];
                while c.len() < n {
                    let l = c.len();
                    c.push(c[l - 1] + c[l - 2]);
                }
                (n, c)
            }
            3 => {
                let n = if ty == "u8" { rng.gen_range(100..200) } else { [257usize, 300, 511, 512, 513, 1000][rng.gen_range(0..6)] };
                (n, vec![1; n])
            }
            4 => {
                let n = rng.gen_range(2..40);
                (n, (0..n).map(|_| rng.gen_range(1..50)).collect())
            }
            5 => {
                let n = rng.gen_range(2..6);
                (n, (0..n).map(|i| 1u64 << (2 * i)).collect())
            }
            6 => (0, vec![]),
            _ => {
                let n = rng.gen_range(3..12);
                (n, (0..n).map(|_| rng.gen_range(1..9)).collect())
            }
        };
        // distinct symbols
        let mut syms: Vec<u64> = vec![];
        while syms.len() < nsym {
            let s = if nsym > 150 { syms.len() as u64 + 1 } else { rng.gen_range(0..maxsym) };
            if !syms.contains(&s) {
                syms.push(s);
            }
        }
        // raw pushes building the profile, spread over two source containers; capped item sizes
        let mut pool: Vec<u64> = vec![];
        for (s, c) in syms.iter().zip(&profile) {
            for _ in 0..(*c).min(4000) {
                pool.push(*s);
            }
        }
        // shuffle
        for i in (1..pool.len()).rev() {
            let j = rng.gen_range(0..=i);
            pool.swap(i, j);
        }
        let chunk = rng.gen_range(1..40);
        for (ci, part) in pool.chunks(chunk.max(1)).enumerate() {
            ops.push(json!({"op": "push", "s": 1 + (ci % 2), "v": part}));
        }
        if rng.gen_bool(0.3) {
            ops.push(json!({"op": "push", "s": 1, "v": []}));
        }
        ops.push(json!({"op": "merge", "d": 3, "srcs": [1, 2]}));
        // a first, known item in the coded container
        let v0: Vec<u64> = if syms.is_empty() { vec![] } else { (0..rng.gen_range(1..6)).map(|_| syms[rng.gen_range(0..syms.len())]).collect() };
        ops.push(json!({"op": "push", "s": 3, "v": v0}));
        // coded pushes: items of assorted lengths so that every start/end phase and 0,1,2+ whole bytes occur
        let npush = rng.gen_range(3..14);
        for _ in 0..npush {
            let len = [0usize, 0, 1, 1, 2, 3, 5, 8, 9, 16, 17, 33][rng.gen_range(0..12)];
            let v: Vec<u64> = if syms.is_empty() { vec![] } else { (0..len).map(|_| syms[rng.gen_range(0..syms.len())]).collect() };
            if rng.gen_bool(0.15) && !ops.is_empty() {
                // a wrapped item from a raw source container
                ops.push(json!({"op": "push_from", "d": 3, "s": 1, "i": 0}));
            } else {
                ops.push(json!({"op": "push", "s": 3, "v": v}));
            }
        }
        if kind == 2 && nsym >= 10 {
            // Fibonacci counts: the symbol of rank n-9 has an 8-bit code, the two most frequent ones 1 and 2 bits.
            // Items that leave 1..7 pending bits of either polarity, each followed by an item that starts with the
            // 8-bit code (the encoder's byte-aligned paths)
            // (which symbols have all-zero / all-one codes is the implementation's choice: the most frequent and the
            //  rarest ones are both tried as the bits that precede the 8-bit code, inside an item and across items)
            let (top, second, eight) = (syms[nsym - 1], syms[nsym - 2], syms[nsym - 9]);
            for k in 1..8usize {
                ops.push(json!({"op": "push", "s": 3, "v": vec![top; k]}));
                ops.push(json!({"op": "push", "s": 3, "v": [eight]}));
                ops.push(json!({"op": "push", "s": 3, "v": vec![second; (k + 1) / 2]}));
                ops.push(json!({"op": "push", "s": 3, "v": [eight, top]}));
            }
            for pre in [top, second, syms[0], syms[1], syms[2]] {
                for k in 1..4usize {
                    let mut it = vec![pre; k];
                    it.push(eight);
                    ops.push(json!({"op": "push", "s": 3, "v": it}));
                    ops.push(json!({"op": "push", "s": 3, "v": vec![pre; k]}));
                    ops.push(json!({"op": "push", "s": 3, "v": [eight, eight]}));
                }
            }
        }
        if rng.gen_bool(0.25) {
            // outside the statistics: must be refused
            let mut o = rng.gen_range(0..maxsym);
            while syms.contains(&o) {
                o = rng.gen_range(0..maxsym);
            }
            ops.push(json!({"op": "push", "s": 3, "v": [o]}));
        } else {
            // second generation
            ops.push(json!({"op": "merge", "d": 2, "srcs": [3]}));
            for _ in 0..rng.gen_range(1..5) {
                let len = rng.gen_range(0..12);
                let v: Vec<u64> = if syms.is_empty() { vec![] } else { (0..len).map(|_| syms[rng.gen_range(0..syms.len())]).collect() };
                ops.push(json!({"op": "push", "s": 2, "v": v}));
            }
            ops.push(json!({"op": "push_from", "d": 2, "s": 3, "i": 0}));
            ops.push(json!({"op": "cmp", "s": 2, "i": 0, "s2": 3, "i2": 0}));
            ops.push(json!({"op": "cmp", "s": 3, "i": 1, "s2": 1, "i2": 0}));
            ops.push(json!({"op": "cmp", "s": 1, "i": 0, "s2": 2, "i2": 1}));
            // statistics of a coded container include items pushed as read items of another coded container:
            // the next generation is built from them
            ops.push(json!({"op": "merge", "d": 1, "srcs": [2]}));
            for _ in 0..rng.gen_range(1..4) {
                let len = rng.gen_range(0..9);
                let v: Vec<u64> = if syms.is_empty() { vec![] } else { (0..len).map(|_| syms[rng.gen_range(0..syms.len())]).collect() };
                ops.push(json!({"op": "push", "s": 1, "v": v}));
            }
            // copies of coded containers (C09): clone, and clone_from into a container coded differently;
            // both must answer the same continuation like the source
            ops.push(json!({"op": "clone", "d": 1, "s": 3}));
            ops.push(json!({"op": "push", "s": 1, "v": v0}));
            ops.push(json!({"op": "push", "s": 3, "v": v0}));
            ops.push(json!({"op": "clone_from", "d": 2, "s": 3}));
            for _ in 0..rng.gen_range(1..4) {
                let len = rng.gen_range(0..9);
                let v: Vec<u64> = if syms.is_empty() { vec![] } else { (0..len).map(|_| syms[rng.gen_range(0..syms.len())]).collect() };
                ops.push(json!({"op": "push", "s": 2, "v": v}));
                ops.push(json!({"op": "push", "s": 3, "v": v}));
            }
            ops.push(json!({"op": "merge", "d": 2, "srcs": [3]}));
            // a coded container whose ONLY input is a read item of another coded container: the generation
            // built from it must know exactly that item's symbols
            ops.push(json!({"op": "merge", "d": 1, "srcs": [3]}));
            ops.push(json!({"op": "push_from", "d": 1, "s": 3, "i": 0}));
            ops.push(json!({"op": "merge", "d": 2, "srcs": [1]}));
            ops.push(json!({"op": "push", "s": 2, "v": v0}));
            ops.push(json!({"op": "push_from", "d": 2, "s": 1, "i": 0}));
            // clear must also forget the statistics: a new profile, a new generation
            ops.push(json!({"op": "clear", "s": 2}));
            ops.push(json!({"op": "push", "s": 2, "v": [maxsym + 1, 3, 3]}));
            ops.push(json!({"op": "push", "s": 2, "v": [3, 3, maxsym + 2, 3]}));
            ops.push(json!({"op": "merge", "d": 3, "srcs": [2]}));
            ops.push(json!({"op": "push", "s": 3, "v": [3, maxsym + 1, 3]}));
            ops.push(json!({"op": "push", "s": 3, "v": [maxsym + 2]}));
        }
        writeln!(f, "{}", json!({"nslots": 3, "ops": ops})).unwrap();
    }
}

// ---------------------------------------------------------------------------------------------
// Coded regions nested in a fan-out region: ColumnsRegion<HuffmanContainer<u8>> -> TraceCodedColumns.tla

type CH = flatcontainer::ColumnsRegion<HuffmanContainer<u8>>;
type FCH = flatcontainer::FlatStack<CH>;

fn render_row(row: flatcontainer::impls::columns::ReadColumns<'_, HuffmanContainer<u8>>) -> Value {
    let cells: Vec<Value> = row.iter().map(|w| json_of(&w.into_owned())).collect();
    let by_get: Vec<Value> = (0..row.len()).map(|j| json_of(&row.get(j).into_owned())).collect();
    if cells != by_get {
        return json!({"INCONSISTENT": "iter vs get"});
    }
    Value::Array(cells)
}

/// the object under test of the coded-columns scenarios: the bare region, or a FlatStack over it
/// (copy / get / merge_capacity / clear / clone / clone_from) - same scenarios, same trace specification
pub trait ColsSubject: Default + Clone {
    fn push_row(&mut self, v: &Vec<Vec<u8>>) -> usize;
    fn read(&self, id: usize) -> Value;
    fn merged(srcs: &[&Self]) -> Self;
    fn wipe(&mut self);
}
impl ColsSubject for CH {
    fn push_row(&mut self, v: &Vec<Vec<u8>>) -> usize {
        self.push(v)
    }
    fn read(&self, id: usize) -> Value {
        match guarded(|| render_row(self.index(id))) {
            Ok(v) => v,
            Err(m) => json!({"PANIC": m}),
        }
    }
    fn merged(srcs: &[&Self]) -> Self {
        CH::merge_regions(srcs.iter().map(|r| *r))
    }
    fn wipe(&mut self) {
        self.clear()
    }
}
impl ColsSubject for FCH {
    fn push_row(&mut self, v: &Vec<Vec<u8>>) -> usize {
        self.copy(v);
        self.len() - 1
    }
    fn read(&self, id: usize) -> Value {
        match guarded(|| render_row(self.get(id))) {
            Ok(v) => v,
            Err(m) => json!({"PANIC": m}),
        }
    }
    fn merged(srcs: &[&Self]) -> Self {
        FCH::merge_capacity(srcs.iter().map(|r| *r))
    }
    fn wipe(&mut self) {
        self.clear()
    }
}

pub fn cmd_cols(seed: u64, runs: usize, out: &str, as_stack: bool) {
    if as_stack {
        run_cols::<FCH>(seed, runs, out)
    } else {
        run_cols::<CH>(seed, runs, out)
    }
}

/// `huffcols-run --seed N --runs K --out trace.ndjson [--as-stack]`
fn run_cols<S: ColsSubject>(seed: u64, runs: usize, out: &str) {
    quiet_panics();
    let mut rng = StdRng::seed_from_u64(seed);
    let mut w = std::io::BufWriter::new(std::fs::File::create(out).expect("create"));
    for run in 1..=runs as u64 {
        let nslots = 4;
        let mut slots: Vec<(S, Vec<usize>, Vec<Value>, bool)> = (0..nslots).map(|_| (S::default(), vec![], vec![], false)).collect();
        writeln!(w, "{}", json!({"ev": "reset", "run": run, "nslots": nslots})).unwrap();
        let nsym = rng.gen_range(1..5u8);
        let cell = |rng: &mut StdRng, extra: u8| -> Vec<u8> { (0..rng.gen_range(0..4)).map(|_| rng.gen_range(0..nsym + extra)).collect() };
        let row = |rng: &mut StdRng, width: usize, extra: u8| -> Vec<Vec<u8>> { (0..width).map(|_| cell(rng, extra)).collect() };
        let steps = rng.gen_range(6..16);
        // sources of different widths (slot 1 wide, slot 2 narrow, slot 3 wide with other symbols)
        let widths = [rng.gen_range(2..5usize), rng.gen_range(0..2usize), rng.gen_range(2..5usize), 0];
        // forced follow-ups: after a merge, the (still empty, but coded) result is sometimes copied at once and the
        // copy is offered a row with a symbol no source has seen
        let mut forced: Vec<(&str, usize, usize)> = vec![];
        let mut step = 0;
        while step < steps || !forced.is_empty() {
            step += 1;
            let f = if forced.is_empty() { None } else { Some(forced.remove(0)) };
            let r = match f {
                Some(("copy", _, _)) => 80,
                Some(("alien", _, _)) => 0,
                _ => rng.gen_range(0..100),
            };
            let step = step - 1;
            if step < 6 || r < 50 {
                let s = match f {
                    Some((_, s, _)) => s,
                    None => if step < 6 { step % 3 } else { rng.gen_range(0..nslots) },
                };
                if slots[s].3 {
                    continue;
                }
                let width = if step < 6 && f.is_none() { widths[s] } else { rng.gen_range(0..5) };
                // symbols of slot 3 are shifted so that only it knows them in the high columns
                let extra = if rng.gen_bool(0.2) { 1 } else { 0 };
                let mut v = row(&mut rng, width, extra);
                if f.is_some() {
                    v = (0..rng.gen_range(1..4)).map(|_| if rng.gen_bool(0.6) { vec![200u8] } else { cell(&mut rng, 0) }).collect();
                }
                if s == 2 && f.is_none() {
                    for c in v.iter_mut() {
                        for x in c.iter_mut() {
                            *x += 10;
                        }
                    }
                }
                let res = {
                    let reg = &mut slots[s].0;
                    guarded(|| reg.push_row(&v))
                };
                let vj: Vec<Value> = v.iter().map(|c| json_of(c)).collect();
                match res {
                    Err(m) => {
                        slots[s].3 = true;
                        writeln!(w, "{}", json!({"ev": "cols_push", "run": run, "s": s + 1, "v": vj, "panic": true, "msg": m.chars().take(80).collect::<String>(), "read": [], "read_err": "", "stable": true})).unwrap();
                    }
                    Ok(idx) => {
                        let rd = slots[s].0.read(idx);
                        let mut stable = true;
                        for k in 0..slots[s].1.len() {
                            if slots[s].0.read(slots[s].1[k]) != slots[s].2[k] {
                                stable = false;
                            }
                        }
                        slots[s].1.push(idx);
                        slots[s].2.push(rd.clone());
                        let (rv, re) = if rd.is_array() { (rd, String::new()) } else { (json!([]), rd.to_string()) };
                        writeln!(w, "{}", json!({"ev": "cols_push", "run": run, "s": s + 1, "v": vj, "panic": false, "read": rv, "read_err": re, "stable": stable})).unwrap();
                    }
                }
            } else if r < 78 {
                // merge into a slot from a random ordered selection of sources
                let d = rng.gen_range(0..nslots);
                let mut srcs: Vec<usize> = (0..nslots).filter(|x| !slots[*x].3 && rng.gen_bool(0.7)).collect();
                for i in (1..srcs.len()).rev() {
                    srcs.swap(i, rng.gen_range(0..=i));
                }
                let m = {
                    let refs: Vec<&S> = srcs.iter().map(|&x| &slots[x].0).collect();
                    guarded(|| S::merged(refs.as_slice()))
                };
                let sj: Vec<usize> = srcs.iter().map(|x| x + 1).collect();
                match m {
                    Ok(m) => {
                        slots[d] = (m, vec![], vec![], false);
                        writeln!(w, "{}", json!({"ev": "cols_merge", "run": run, "d": d + 1, "srcs": sj, "panic": false})).unwrap();
                        if rng.gen_bool(0.35) {
                            let d2 = (d + rng.gen_range(1..nslots)) % nslots;
                            forced.push(("copy", d, d2));
                            forced.push(("alien", d2, 0));
                        }
                    }
                    Err(msg) => {
                        slots[d].3 = true;
                        writeln!(w, "{}", json!({"ev": "cols_merge", "run": run, "d": d + 1, "srcs": sj, "panic": true, "msg": msg})).unwrap();
                    }
                }
            } else if r < 90 {
                // clone / clone_from (into whatever the destination holds): the copy is the source
                let (s, d) = match f {
                    Some(("copy", s, d)) => (s, d),
                    _ => {
                        let s = rng.gen_range(0..nslots);
                        (s, (s + rng.gen_range(1..nslots)) % nslots)
                    }
                };
                if slots[s].3 {
                    continue;
                }
                let how = if rng.gen_bool(0.5) && !slots[d].3 { "clone_from" } else { "clone" };
                let res = {
                    let (src, dst) = if s < d {
                        let (a, b) = slots.split_at_mut(d);
                        (&a[s].0, &mut b[0].0)
                    } else {
                        let (a, b) = slots.split_at_mut(s);
                        (&b[0].0, &mut a[d].0)
                    };
                    guarded(|| {
                        if how == "clone_from" {
                            dst.clone_from(src);
                        } else {
                            *dst = src.clone();
                        }
                    })
                };
                slots[d].1 = slots[s].1.clone();
                slots[d].2 = slots[s].2.clone();
                slots[d].3 = res.is_err();
                let same = res.is_ok() && (0..slots[d].1.len()).all(|k| slots[d].0.read(slots[d].1[k]) == slots[d].2[k]);
                writeln!(w, "{}", json!({"ev": "cols_copy", "run": run, "d": d + 1, "s": s + 1, "how": how, "panic": res.is_err(), "same": same})).unwrap();
            } else {
                let s = rng.gen_range(0..nslots);
                if slots[s].3 {
                    continue;
                }
                let res = {
                    let reg = &mut slots[s].0;
                    guarded(|| reg.wipe())
                };
                slots[s].1.clear();
                slots[s].2.clear();
                writeln!(w, "{}", json!({"ev": "cols_clear", "run": run, "s": s + 1, "panic": res.is_err()})).unwrap();
                if res.is_err() {
                    slots[s].3 = true;
                }
            }
        }
    }
    w.flush().unwrap();
}
