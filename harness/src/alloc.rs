//! Allocation discipline (C17): a counting global allocator and the scenario driver whose
//! ndjson trace is validated by TraceAlloc.tla.
use crate::catalogue;
use crate::gen::*;
use crate::slot::SlotT;
use crate::util::*;
use rand::rngs::StdRng;
use rand::{Rng, SeedableRng};
use serde_json::{json, Value};
use std::alloc::{GlobalAlloc, Layout, System};
use std::io::Write;
use std::sync::atomic::{AtomicU64, Ordering};

pub struct Counting;
static ALLOCS: AtomicU64 = AtomicU64::new(0);

unsafe impl GlobalAlloc for Counting {
    unsafe fn alloc(&self, l: Layout) -> *mut u8 {
        ALLOCS.fetch_add(1, Ordering::Relaxed);
        System.alloc(l)
    }
    unsafe fn dealloc(&self, p: *mut u8, l: Layout) {
        System.dealloc(p, l)
    }
    unsafe fn realloc(&self, p: *mut u8, l: Layout, n: usize) -> *mut u8 {
        ALLOCS.fetch_add(1, Ordering::Relaxed);
        System.realloc(p, l, n)
    }
    unsafe fn alloc_zeroed(&self, l: Layout) -> *mut u8 {
        ALLOCS.fetch_add(1, Ordering::Relaxed);
        System.alloc_zeroed(l)
    }
}

pub fn allocs() -> u64 {
    ALLOCS.load(Ordering::Relaxed)
}

thread_local! {
    static WINDOW: std::cell::Cell<u64> = const { std::cell::Cell::new(0) };
}
/// allocator calls made inside region pushes (catalogue::mpush) since the last `window_take`
pub fn window_add(n: u64) {
    WINDOW.with(|w| w.set(w.get() + n));
}
pub fn window_take() -> u64 {
    WINDOW.with(|w| w.replace(0))
}

fn caps_of(s: &dyn SlotT) -> Vec<usize> {
    s.heap().map(|h| h.iter().map(|p| p.1).collect()).unwrap_or_default()
}

struct Run<'a, W: Write> {
    out: &'a mut W,
    run: u64,
    form: usize,
    any_form: Option<usize>,
}

/// the input form whose harness closure borrows the value (no clone, no collect)
fn borrowing_form(forms: &[&'static str]) -> usize {
    for want in ["slice", "str", "ref", "ref_vec", "owned"] {
        if let Some(i) = forms.iter().position(|f| *f == want) {
            return i;
        }
    }
    0
}

impl<'a, W: Write> Run<'a, W> {
    fn ev(&mut self, v: Value) {
        let mut v = v;
        v["run"] = json!(self.run);
        writeln!(self.out, "{}", v).unwrap();
    }
    /// push through a reference-based form (the harness closure itself allocates nothing, so the
    /// allocator count is meaningful: `measured`) or, when `any_form` is given, through that form
    /// (capacities are still compared; the count is not, because e.g. the owned-Vec form clones
    /// its argument inside the closure)
    fn push(&mut self, slots: &mut [Box<dyn SlotT>], s: usize, v: &Value) -> bool {
        let form = self.any_form.take().unwrap_or(self.form);
        // every form is measured: the count is taken around the region's push itself (catalogue::mpush), not
        // around the harness closure that builds the argument
        let measured = true;
        let cb = caps_of(&*slots[s]);
        let r = {
            let sl = &mut slots[s];
            guarded(|| sl.push_measured(form, v))
        };
        match r {
            Ok((_idx, n)) => {
                let ca = caps_of(&*slots[s]);
                self.ev(json!({"ev": "push", "s": s + 1, "v": v, "cb": cb, "ca": ca, "allocs": n, "panic": false, "measured": measured, "form": form}));
                true
            }
            Err(m) => {
                self.ev(json!({"ev": "push", "s": s + 1, "v": v, "cb": cb, "ca": cb, "allocs": 0, "panic": true, "msg": m, "measured": measured, "form": form}));
                false
            }
        }
    }
}

/// `alloc-run --seed N --runs K --growth G --out trace.ndjson`
pub fn cmd_run(seed: u64, runs_per_subject: usize, growth_log2: u32, out: &str) {
    quiet_panics();
    let f = std::fs::File::create(out).expect("create trace");
    let mut w = std::io::BufWriter::new(f);
    let mut rng = StdRng::seed_from_u64(seed);
    let mut run = 0u64;
    let names: Vec<(String, Value, usize)> = catalogue::subjects().iter().filter(|s| s.caps["heap"] == json!(true)).map(|s| (s.name.to_string(), s.shape.clone(), s.reserve_forms.len())).collect();
    for (name, shape, nres) in &names {
        let structural = is_structural(shape);
        let plain = is_plain(shape);
        let subj = catalogue::find(name);
        // ---- pre-sizing scenarios (vector-backed structural regions only)
        if structural {
            for k in 0..runs_per_subject {
                run += 1;
                let mut r = Run { out: &mut w, run, form: borrowing_form(&subj.forms), any_form: None };
                let mut slots: Vec<Box<dyn SlotT>> = (0..3).map(|_| (subj.make)()).collect();
                r.ev(json!({"ev": "reset", "subj": name, "plain": plain, "nslots": 3}));
                // the target may already be populated
                for _ in 0..rng.gen_range(0..4) {
                    let v = gen_value(shape, &mut rng, false);
                    if !r.push(&mut slots, 2, &v) {
                        break;
                    }
                }
                let kind = if *nres > 0 { k % 3 } else { 1 + k % 2 };
                match kind {
                    0 => {
                        // reserve_items(batch) through one of the accepted item forms, then exactly the batch
                        let n = [0usize, 1, 2, 5, 12][rng.gen_range(0..5)];
                        let batch: Vec<Value> = (0..n).map(|_| gen_value(shape, &mut rng, false)).collect();
                        let form = rng.gen_range(0..*nres);
                        let ok = {
                            let sl = &mut slots[2];
                            guarded(|| sl.reserve_items(form, &batch)).is_ok()
                        };
                        if !ok {
                            continue;
                        }
                        r.ev(json!({"ev": "presize_items", "s": 3, "form": subj.reserve_forms[form], "batch": batch}));
                        for v in &batch {
                            if rng.gen_bool(0.5) {
                                r.any_form = Some(rng.gen_range(0..subj.forms.len()));
                            }
                            if !r.push(&mut slots, 2, v) {
                                break;
                            }
                        }
                    }
                    _ => {
                        // sources with arbitrary contents: few large / many small / skewed variants / empty
                        let mut contents: Vec<Vec<Value>> = vec![vec![], vec![]];
                        for (si, c) in contents.iter_mut().enumerate() {
                            let n = [0usize, 1, 3, 9][rng.gen_range(0..4)];
                            for _ in 0..n {
                                let v = gen_value(shape, &mut rng, false);
                                c.push(v.clone());
                                if !r.push(&mut slots, si, &v) {
                                    break;
                                }
                            }
                        }
                        if kind == 1 {
                            let ok = {
                                let (a, b) = slots.split_at_mut(2);
                                let refs: Vec<&dyn SlotT> = vec![&*a[0], &*a[1]];
                                guarded(|| b[0].reserve_regions(&refs)).is_ok()
                            };
                            if !ok {
                                continue;
                            }
                            r.ev(json!({"ev": "presize_regions", "s": 3, "srcs": [1, 2]}));
                        } else {
                            let m = {
                                let refs: Vec<&dyn SlotT> = vec![&*slots[0], &*slots[1]];
                                guarded(|| slots[2].merged(&refs))
                            };
                            match m {
                                Ok(m) => slots[2] = m,
                                Err(_) => continue,
                            }
                            r.ev(json!({"ev": "merge", "d": 3, "srcs": [1, 2]}));
                        }
                        // the announced contents arrive as owned values in any input form, or as the read items of
                        // the very source regions (region-to-region copy)
                        let mut stop = false;
                        for (si, c) in contents.iter().enumerate() {
                            for (i, v) in c.iter().enumerate() {
                                if stop {
                                    break;
                                }
                                if subj.caps["push_item"] == json!(true) && rng.gen_bool(0.35) && i < slots[si].n() {
                                    let cb = caps_of(&*slots[2]);
                                    crate::alloc::window_take();
                                    let res = {
                                        let (a, b) = slots.split_at_mut(2);
                                        guarded(|| b[0].push_from(&*a[si], i, "region"))
                                    };
                                    let n = crate::alloc::window_take();
                                    match res {
                                        Ok(Some(_)) => {
                                            let ca = caps_of(&*slots[2]);
                                            r.ev(json!({"ev": "push", "s": 3, "v": v, "cb": cb, "ca": ca, "allocs": n, "panic": false, "measured": true, "form": "read-item"}));
                                        }
                                        Ok(None) => {
                                            stop = !r.push(&mut slots, 2, v);
                                        }
                                        Err(m) => {
                                            r.ev(json!({"ev": "push", "s": 3, "v": v, "cb": cb, "ca": cb, "allocs": 0, "panic": true, "msg": m, "measured": true, "form": "read-item"}));
                                            stop = true;
                                        }
                                    }
                                    continue;
                                }
                                if rng.gen_bool(0.5) {
                                    r.any_form = Some(rng.gen_range(0..subj.forms.len()));
                                }
                                stop = !r.push(&mut slots, 2, v);
                            }
                        }
                    }
                }
                // beyond the announcement: ordinary growth
                for _ in 0..rng.gen_range(0..3) {
                    let v = gen_value(shape, &mut rng, false);
                    if !r.push(&mut slots, 2, &v) {
                        break;
                    }
                }
            }
        }
        // ---- growth without pre-sizing: n = 2^6 .. 2^growth_log2 items on every non-coded composition
        for lg in [6u32, growth_log2] {
            run += 1;
            let mut r = Run { out: &mut w, run, form: borrowing_form(&subj.forms), any_form: None };
            let mut slots: Vec<Box<dyn SlotT>> = vec![(subj.make)()];
            r.ev(json!({"ev": "reset", "subj": name, "plain": plain, "nslots": 1}));
            let n = 1usize << lg;
            let mut alive = true;
            for _ in 0..n {
                let v = gen_value(shape, &mut rng, false);
                let cb = caps_of(&*slots[0]);
                // any input form: none may build a temporary inside the region's push
                let form = if rng.gen_bool(0.5) { r.form } else { rng.gen_range(0..subj.forms.len()) };
                let res = {
                    let sl = &mut slots[0];
                    guarded(|| sl.push_measured(form, &v))
                };
                match res {
                    Ok((_, a)) => {
                        let ca = caps_of(&*slots[0]);
                        // only the pushes that changed something are logged in full
                        if ca != cb || a != 0 {
                            r.ev(json!({"ev": "push", "s": 1, "v": [], "cb": cb, "ca": ca, "allocs": a, "panic": false, "measured": true, "form": form}));
                        }
                    }
                    Err(m) => {
                        r.ev(json!({"ev": "push", "s": 1, "v": [], "cb": cb, "ca": cb, "allocs": 0, "panic": true, "msg": m, "measured": true, "form": form}));
                        alive = false;
                        break;
                    }
                }
            }
            if alive {
                let caps = caps_of(&*slots[0]);
                r.ev(json!({"ev": "end", "s": 1, "n": n, "caps": caps}));
            }
        }
    }
    // ---- FlatStack: the vector index storage is part of the discipline (merge_capacity pre-sizes region AND
    // indices; copy and extend - which reserves by size hint on every call - grow both logarithmically)
    for st in crate::stack::stack_subjects() {
        let plain = is_plain(&st.shape);
        let scaps = |s: &dyn crate::stack::StackT| -> Vec<usize> { s.heap().iter().map(|p| p.1).collect() };
        let mut ev = |w: &mut std::io::BufWriter<std::fs::File>, run: u64, mut v: Value| {
            v["run"] = json!(run);
            writeln!(w, "{}", v).unwrap();
        };
        // one measured step on a stack: Ok(allocator calls) or the panic message
        let mut step = |w: &mut std::io::BufWriter<std::fs::File>, run: u64, stacks: &mut Vec<Box<dyn crate::stack::StackT>>, s: usize, vs: &[Value], as_extend: bool, log_all: bool| -> bool {
            let cb = scaps(&*stacks[s]);
            let r = {
                let sl = &mut stacks[s];
                guarded(|| if as_extend { sl.extend_measured(vs) } else { sl.copy_measured(&vs[0]) })
            };
            match r {
                Ok(n) => {
                    let ca = scaps(&*stacks[s]);
                    if log_all || ca != cb || n != 0 {
                        let v = if log_all { vs[0].clone() } else { json!([]) };
                        ev(w, run, json!({"ev": "push", "s": s + 1, "v": v, "cb": cb, "ca": ca, "allocs": n, "panic": false, "measured": true, "form": if as_extend { "extend" } else { "copy" }}));
                    }
                    true
                }
                Err(m) => {
                    ev(w, run, json!({"ev": "push", "s": s + 1, "v": [], "cb": cb, "ca": cb, "allocs": 0, "panic": true, "msg": m, "measured": true, "form": if as_extend { "extend" } else { "copy" }}));
                    false
                }
            }
        };
        if st.ic == "vec" && is_structural(&st.shape) {
            for _ in 0..runs_per_subject {
                run += 1;
                let mut stacks: Vec<Box<dyn crate::stack::StackT>> = (0..3).map(|_| (st.make)()).collect();
                writeln!(w, "{}", json!({"ev": "reset", "subj": st.name, "plain": plain, "nslots": 3, "run": run})).unwrap();
                let mut contents: Vec<Value> = vec![];
                let mut alive = true;
                for si in 0..2 {
                    let n = [0usize, 1, 3, 9, 20][rng.gen_range(0..5)];
                    for _ in 0..n {
                        let v = gen_value(&st.shape, &mut rng, false);
                        contents.push(v.clone());
                        alive = alive && step(&mut w, run, &mut stacks, si, &[v], false, true);
                    }
                }
                if !alive {
                    continue;
                }
                let m = {
                    let refs: Vec<&dyn crate::stack::StackT> = vec![&*stacks[0], &*stacks[1]];
                    guarded(|| stacks[2].merge_capacity(&refs))
                };
                match m {
                    Ok(m) => stacks[2] = m,
                    Err(_) => continue,
                }
                writeln!(w, "{}", json!({"ev": "merge", "d": 3, "srcs": [1, 2], "run": run})).unwrap();
                if rng.gen_bool(0.5) {
                    for v in &contents {
                        if !step(&mut w, run, &mut stacks, 2, &[v.clone()], false, true) {
                            break;
                        }
                    }
                } else {
                    // the announced contents through `extend`, a few items per call: the items of a call are listed
                    // one by one, the capacities observed around the call go with the last of them
                    let mut k = 0;
                    while k < contents.len() {
                        let n = rng.gen_range(1..=(contents.len() - k).min(7));
                        let batch: Vec<Value> = contents[k..k + n].to_vec();
                        k += n;
                        let cb = scaps(&*stacks[2]);
                        let res = {
                            let sl = &mut stacks[2];
                            guarded(|| sl.extend_measured(&batch))
                        };
                        match res {
                            Ok(a) => {
                                let ca = scaps(&*stacks[2]);
                                for (j, v) in batch.iter().enumerate() {
                                    let last = j + 1 == batch.len();
                                    writeln!(w, "{}", json!({"ev": "push", "s": 3, "v": v, "cb": cb, "ca": if last { ca.clone() } else { cb.clone() },
                                        "allocs": if last { a } else { 0 }, "panic": false, "measured": true, "form": "extend", "run": run})).unwrap();
                                }
                            }
                            Err(m) => {
                                writeln!(w, "{}", json!({"ev": "push", "s": 3, "v": batch[0], "cb": cb, "ca": cb, "allocs": 0, "panic": true, "msg": m, "measured": true, "form": "extend", "run": run})).unwrap();
                                break;
                            }
                        }
                    }
                }
                for _ in 0..rng.gen_range(0..3) {
                    let v = gen_value(&st.shape, &mut rng, false);
                    if !step(&mut w, run, &mut stacks, 2, &[v], false, true) {
                        break;
                    }
                }
            }
        }
        // with_capacity(n): the index storage holds n indices without reallocation (the region is not pre-sized)
        if st.ic == "vec" {
            for n in [0usize, 1, 7, 100] {
                run += 1;
                let proto = (st.make)();
                let mut stacks: Vec<Box<dyn crate::stack::StackT>> = vec![proto.with_capacity(n)];
                writeln!(w, "{}", json!({"ev": "reset", "subj": st.name, "plain": plain, "nslots": 1, "run": run})).unwrap();
                let c0 = stacks[0].index_capacity().unwrap_or(0);
                let mut caps = vec![];
                for _ in 0..n {
                    let v = gen_value(&st.shape, &mut rng, false);
                    if guarded(|| stacks[0].copy_measured(&v)).is_err() {
                        break;
                    }
                    caps.push(stacks[0].index_capacity().unwrap_or(0));
                }
                writeln!(w, "{}", json!({"ev": "index_capacity", "s": 1, "announced": n, "cap0": c0, "caps": caps, "len": stacks[0].len(), "run": run})).unwrap();
            }
        }
        for (lg, batched) in [(6u32, false), (6, true), (growth_log2, false), (growth_log2, true)] {
            run += 1;
            let mut stacks: Vec<Box<dyn crate::stack::StackT>> = vec![(st.make)()];
            writeln!(w, "{}", json!({"ev": "reset", "subj": st.name, "plain": plain, "nslots": 1, "run": run})).unwrap();
            let n = 1usize << lg;
            let mut done = 0usize;
            let mut alive = true;
            while done < n && alive {
                let k = if batched { rng.gen_range(1..4usize).min(n - done) } else { 1 };
                let vs: Vec<Value> = (0..k).map(|_| gen_value(&st.shape, &mut rng, false)).collect();
                alive = step(&mut w, run, &mut stacks, 0, &vs, batched, false);
                done += k;
            }
            if alive {
                let caps = scaps(&*stacks[0]);
                writeln!(w, "{}", json!({"ev": "end", "s": 1, "n": n, "caps": caps, "run": run})).unwrap();
            }
        }
    }
    w.flush().unwrap();
    eprintln!("alloc-run: {run} runs");
}
