//! The public heavy-hitter summary `MisraGries`: random update sequences -> ndjson for TraceMG.tla.
use crate::util::*;
use flatcontainer::impls::codec::MisraGries;
use rand::rngs::StdRng;
use rand::{Rng, SeedableRng};
use serde_json::json;
use std::io::Write;

pub fn cmd_run(seed: u64, runs: usize, out: &str) {
    quiet_panics();
    let mut rng = StdRng::seed_from_u64(seed);
    let mut w = std::io::BufWriter::new(std::fs::File::create(out).expect("create"));
    for run in 1..=runs {
        let k = if run % 29 == 0 { 512 } else { [2usize, 2, 3, 4, 8, 16][run % 6] };
        let nelem = match run % 5 {
            0 => 2,
            1 => k + 1,
            2 => 3 * k,
            3 => 10 * k,
            _ => k,
        }
        .min(3000);
        let n = if k >= 512 { rng.gen_range(1000..6000) } else { rng.gen_range(0..40 * k + 5) };
        let skew = rng.gen_range(0..4);
        let mut ins: Vec<(u32, usize)> = vec![];
        for _ in 0..n {
            let e: u32 = match skew {
                0 => rng.gen_range(0..nelem as u32),
                1 => if rng.gen_bool(0.6) { 7 } else { rng.gen_range(0..nelem as u32) },
                2 => (rng.gen_range(0..nelem as u32) * rng.gen_range(0..nelem as u32)) % (nelem as u32).max(1),
                _ => if rng.gen_bool(0.9) { 1 } else { rng.gen_range(0..nelem as u32) },
            };
            let c = if rng.gen_bool(0.9) { 1 } else { rng.gen_range(1..5) };
            ins.push((e, c));
        }
        let res = guarded(|| {
            let mut mg = MisraGries::<u32>::with_capacity(k);
            for (e, c) in &ins {
                if *c == 1 {
                    mg.insert(*e)
                } else {
                    mg.update(*e, *c)
                }
            }
            mg.done()
        });
        // the inserted multiset, aggregated per element (ground truth chosen by the driver)
        let mut agg: std::collections::BTreeMap<u32, usize> = Default::default();
        for (e, c) in &ins {
            *agg.entry(*e).or_insert(0) += *c;
        }
        let counts_j: Vec<_> = agg.iter().map(|(e, c)| json!([e, c])).collect();
        let updates = ins.len();
        match res {
            Ok(d) => writeln!(w, "{}", json!({"ev": "mg", "run": run, "cap": 2 * k, "counts": counts_j, "updates": updates, "done": d.iter().map(|(e, c)| json!([e, c])).collect::<Vec<_>>(), "panic": false})).unwrap(),
            Err(m) => writeln!(w, "{}", json!({"ev": "mg", "run": run, "cap": 2 * k, "counts": counts_j, "updates": updates, "done": [], "panic": true, "msg": m})).unwrap(),
        }
    }
    w.flush().unwrap();
}
