//! Random values by shape, over the REAL value domains (long strings, all Unicode planes,
//! extreme integers, NaN bit patterns, empty and ragged sequences).
use rand::rngs::StdRng;
use rand::Rng;
use serde_json::{json, Value};

const CHARS: &[&str] = &["a", "b", "z", "0", " ", "ä", "ß", "é", "€", "한", "日", "😀", "🦀", "e\u{301}", "\u{7f}", "\u{80}", "\u{7ff}", "\u{800}", "\u{ffff}", "\u{10000}", "\u{10ffff}", "\0"];

pub fn gen_string(rng: &mut StdRng) -> Value {
    let len = match rng.gen_range(0..10) {
        0 => 0,
        1..=6 => rng.gen_range(1..6),
        7 | 8 => rng.gen_range(6..20),
        _ => rng.gen_range(20..200),
    };
    let mut s = String::new();
    for _ in 0..len {
        s.push_str(CHARS[rng.gen_range(0..CHARS.len())]);
    }
    Value::Array(s.as_bytes().iter().map(|b| json!(*b)).collect())
}

pub fn gen_scalar(t: &str, rng: &mut StdRng) -> Value {
    let pick = rng.gen_range(0..6);
    match t {
        "u8" => json!(match pick { 0 => 0u8, 1 => 255, _ => rng.gen_range(0..=255u8) }),
        "u16" => json!(match pick { 0 => 0u16, 1 => 65535, _ => rng.gen_range(0..=65535u16) }),
        "u32" => json!(match pick { 0 => 0u32, 1 => u32::MAX, _ => rng.gen::<u32>() }.to_string()),
        "u64" => json!(match pick { 0 => 0u64, 1 => u64::MAX, 2 => 1u64 << 63, _ => rng.gen::<u64>() }.to_string()),
        "usize" => match pick {
            0 => json!(0),
            1 => json!(usize::MAX.to_string()),
            2 => json!((u32::MAX as u64 + 1).to_string()),
            _ => json!(rng.gen_range(0..50)),
        },
        "i8" => json!(match pick { 0 => i8::MIN, 1 => i8::MAX, _ => rng.gen::<i8>() }.to_string()),
        "unit" => json!("unit"),
        "bool" => json!(if rng.gen_bool(0.5) { "true" } else { "false" }),
        "char" => {
            let c = match pick {
                0 => 'a',
                1 => '\u{10ffff}',
                2 => '\0',
                _ => loop {
                    if let Some(c) = char::from_u32(rng.gen_range(0..0x11000)) {
                        break c;
                    }
                },
            };
            json!(format!("c:{}", c as u32))
        }
        "f64" => {
            let x: f64 = match pick {
                0 => 0.0,
                1 => f64::from_bits(0x7ff8_0000_0000_0001),
                2 => f64::NEG_INFINITY,
                3 => f64::from_bits(0xfff8_dead_beef_0001),
                _ => rng.gen::<f64>() * 1000.0 - 500.0,
            };
            json!({"bits": format!("{:016x}", x.to_bits()), "nan": x.is_nan()})
        }
        "string" => gen_string(rng),
        other => {
            eprintln!("TOOL-ERROR: no generator for scalar type {other}");
            std::process::exit(2)
        }
    }
}

/// `json_safe`: avoid values a text format cannot carry (NaN, infinities)
pub fn gen_value(shape: &Value, rng: &mut StdRng, json_safe: bool) -> Value {
    let k = shape["k"].as_str().unwrap_or("");
    let t = shape["t"].as_str().unwrap_or("");
    let scalar = |rng: &mut StdRng| loop {
        let v = gen_scalar(t, rng);
        if json_safe && t == "f64" {
            let bits = u64::from_str_radix(v["bits"].as_str().unwrap(), 16).unwrap();
            if !f64::from_bits(bits).is_finite() {
                continue;
            }
        }
        break v;
    };
    match k {
        "owned" => {
            let len = match rng.gen_range(0..10) {
                0 | 1 => 0,
                2..=7 => rng.gen_range(1..6),
                8 => rng.gen_range(6..40),
                _ => if t == "unit" { rng.gen_range(40..5000) } else { rng.gen_range(40..300) },
            };
            if t == "unit" && len >= crate::val::UNIT_RUN_MIN {
                return json!({"unit_n": len.to_string()}); // the canonical encoding of a long run of units
            }
            Value::Array((0..len).map(|_| scalar(rng)).collect())
        }
        "string" => gen_string(rng),
        "mirror" | "vecreg" => scalar(rng),
        "option" => {
            if rng.gen_bool(0.3) {
                json!({"t": "none"})
            } else {
                json!({"t": "some", "v": gen_value(&shape["inner"], rng, json_safe)})
            }
        }
        "result" => {
            if rng.gen_bool(0.6) {
                json!({"t": "ok", "v": gen_value(&shape["ok"], rng, json_safe)})
            } else {
                json!({"t": "err", "v": gen_value(&shape["err"], rng, json_safe)})
            }
        }
        "tuple" => Value::Array(shape["fs"].as_array().unwrap().iter().map(|f| gen_value(f, rng, json_safe)).collect()),
        "slice" => {
            let len = match rng.gen_range(0..8) {
                0 | 1 => 0,
                2..=6 => rng.gen_range(1..5),
                _ => rng.gen_range(5..12),
            };
            let mut out: Vec<Value> = vec![];
            for _ in 0..len {
                // repeats of the previous element exercise deduplicating inner regions
                if !out.is_empty() && rng.gen_bool(0.3) {
                    out.push(out.last().unwrap().clone());
                } else {
                    out.push(gen_value(&shape["inner"], rng, json_safe));
                }
            }
            Value::Array(out)
        }
        "columns" => {
            let len = match rng.gen_range(0..8) {
                0 => 0,
                1..=5 => rng.gen_range(1..5),
                _ => rng.gen_range(5..9),
            };
            Value::Array((0..len).map(|_| gen_value(&shape["inner"], rng, json_safe)).collect())
        }
        "collapse" | "cip" => gen_value(&shape["inner"], rng, json_safe),
        other => {
            eprintln!("TOOL-ERROR: no generator for shape kind {other}");
            std::process::exit(2)
        }
    }
}

pub fn is_structural(shape: &Value) -> bool {
    match shape["k"].as_str().unwrap_or("") {
        "owned" | "mirror" | "vecreg" => true,
        "string" | "option" => is_structural(&shape["inner"]),
        "result" => is_structural(&shape["ok"]) && is_structural(&shape["err"]),
        "tuple" => shape["fs"].as_array().unwrap().iter().all(is_structural),
        "slice" => shape["ic"] == "vec" && is_structural(&shape["inner"]),
        _ => false,
    }
}

/// payloads that own no heap memory themselves (everything except Vec<String> as a region)
pub fn is_plain(shape: &Value) -> bool {
    match shape {
        Value::Object(m) => !(m.get("k").map(|k| k == "vecreg").unwrap_or(false) && m.get("t").map(|t| t == "string").unwrap_or(false)) && m.values().all(is_plain),
        Value::Array(a) => a.iter().all(is_plain),
        _ => true,
    }
}
