//! The typed catalogue: every region composition the checks quantify over, bound to the
//! shape record the TLA+ region algebra (spec/Regions.tla) uses for it.
//!
//! Push forms and the other capabilities are monomorphic closures over concrete types
//! (a generic driver bounded by `for<'a> R: Push<R::ReadItem<'a>>` does not type-check).
use crate::slot::*;
use crate::val::*;
use flatcontainer::impls::deduplicate::{CollapseSequence, ConsecutiveIndexPairs};
use flatcontainer::impls::index::{IndexList, IndexOptimized};
use flatcontainer::impls::tuple::{TupleABCRegion, TupleABRegion};
use flatcontainer::{
    ColumnsRegion, IntoOwned, MirrorRegion, OptionRegion, OwnedRegion, Push, PushIter, Region, ReserveItems,
    ResultRegion, SliceRegion, StringRegion,
};
use serde_json::{json, Value};
use std::mem::size_of;
use std::rc::Rc;

pub type IList = IndexList<Vec<u32>, Vec<u64>>;
pub type Cip<R, O = IndexOptimized> = ConsecutiveIndexPairs<R, O>;

/// The shape record of a region type, as used by spec/Regions.tla. Sizes come from the compiler.
pub trait Shaped {
    fn shape() -> Value;
}
pub trait IcKind {
    const KIND: &'static str;
}
impl<T> IcKind for Vec<T> {
    const KIND: &'static str = "vec";
}
impl IcKind for IList {
    const KIND: &'static str = "list";
}
impl IcKind for IndexOptimized {
    const KIND: &'static str = "opt";
}

impl<T: Scalar> Shaped for OwnedRegion<T> {
    fn shape() -> Value {
        json!({"k": "owned", "t": T::NAME, "esz": size_of::<T>()})
    }
}
impl<R: Shaped> Shaped for StringRegion<R> {
    fn shape() -> Value {
        json!({"k": "string", "inner": R::shape()})
    }
}
impl<T: Scalar> Shaped for MirrorRegion<T> {
    fn shape() -> Value {
        json!({"k": "mirror", "t": T::NAME, "esz": size_of::<T>()})
    }
}
impl Shaped for Vec<u32> {
    fn shape() -> Value {
        json!({"k": "vecreg", "t": "u32", "esz": size_of::<u32>()})
    }
}
impl Shaped for Vec<String> {
    fn shape() -> Value {
        json!({"k": "vecreg", "t": "string", "esz": size_of::<String>()})
    }
}
impl<R: Shaped> Shaped for OptionRegion<R> {
    fn shape() -> Value {
        json!({"k": "option", "inner": R::shape()})
    }
}
impl<A: Shaped, B: Shaped> Shaped for ResultRegion<A, B> {
    fn shape() -> Value {
        json!({"k": "result", "ok": A::shape(), "err": B::shape()})
    }
}
impl<A: Shaped, B: Shaped> Shaped for TupleABRegion<A, B> {
    fn shape() -> Value {
        json!({"k": "tuple", "fs": [A::shape(), B::shape()]})
    }
}
impl<A: Shaped, B: Shaped, C: Shaped> Shaped for TupleABCRegion<A, B, C> {
    fn shape() -> Value {
        json!({"k": "tuple", "fs": [A::shape(), B::shape(), C::shape()]})
    }
}
impl<R: Shaped + Region, O: IcKind> Shaped for SliceRegion<R, O> {
    fn shape() -> Value {
        json!({"k": "slice", "ic": O::KIND, "isz": size_of::<R::Index>(), "inner": R::shape()})
    }
}
impl<R: Shaped + Region> Shaped for CollapseSequence<R> {
    fn shape() -> Value {
        json!({"k": "collapse", "inner": R::shape()})
    }
}
impl<R: Shaped, O: IcKind> Shaped for ConsecutiveIndexPairs<R, O> {
    fn shape() -> Value {
        json!({"k": "cip", "ic": O::KIND, "isz": size_of::<usize>(), "inner": R::shape()})
    }
}
impl<R: Shaped + Region, O: IcKind> Shaped for ColumnsRegion<R, O> {
    fn shape() -> Value {
        json!({"k": "columns", "ic": O::KIND, "isz": size_of::<R::Index>(), "rsz": size_of::<R>(), "inner": R::shape()})
    }
}

/// the region's push itself, with the allocator calls made INSIDE it recorded (whatever the form's closure
/// allocates to build its argument happens before)
#[inline(never)]
fn mpush<R: Push<T>, T>(r: &mut R, t: T) -> R::Index {
    let a0 = crate::alloc::allocs();
    let i = r.push(t);
    crate::alloc::window_add(crate::alloc::allocs() - a0);
    i
}

fn form<R: Region>(n: &'static str, f: PushFn<R>) -> (&'static str, PushFn<R>) {
    (n, f)
}
fn rform<R: Region>(n: &'static str, f: ReserveFn<R>) -> (&'static str, ReserveFn<R>) {
    (n, f)
}

macro_rules! clone_caps {
    ($c:ident, $t:ty) => {
        $c.clone = Some(|r: &$t| r.clone());
        $c.clone_from = Some(|a: &mut $t, b: &$t| a.clone_from(b));
    };
}
macro_rules! serde_caps {
    ($c:ident, $t:ty) => {
        $c.serde = Some(|r: &$t| {
            let s = serde_json::to_string(r).map_err(|e| e.to_string())?;
            serde_json::from_str::<$t>(&s).map_err(|e| e.to_string())
        });
    };
}
macro_rules! item_caps {
    ($c:ident, $t:ty) => {
        $c.push_item = Some(|d: &mut $t, s: &$t, i| mpush(d, s.index(i)));
        $c.push_borrowed =
            Some(|d: &mut $t, o: &<$t as Region>::Owned| mpush(d, <<$t as Region>::ReadItem<'_> as IntoOwned>::borrow_as(o)));
    };
}
macro_rules! get_caps {
    ($c:ident, $t:ty) => {
        $c.get = Some(|r: &$t, i, p| r.index(i).get(p).render());
        $c.get_borrowed =
            Some(|o: &<$t as Region>::Owned, p| <<$t as Region>::ReadItem<'_> as IntoOwned>::borrow_as(o).get(p).render());
    };
}
pub fn ord_json(o: Option<std::cmp::Ordering>) -> Value {
    match o {
        None => json!("none"),
        Some(std::cmp::Ordering::Less) => json!("lt"),
        Some(std::cmp::Ordering::Equal) => json!("eq"),
        Some(std::cmp::Ordering::Greater) => json!("gt"),
    }
}
macro_rules! cmp_caps {
    ($c:ident, $t:ty) => {
        $c.cmp = Some(|a: &$t, i, b: &$t, j| {
            let (x, y) = (a.index(i), b.index(j));
            json!({"eq": x == y, "ne": x != y, "partial_cmp": ord_json(x.partial_cmp(&y)), "cmp": ord_json(Some(x.cmp(&y))),
                   "rev_eq": y == x, "rev_cmp": ord_json(Some(y.cmp(&x)))})
        });
        $c.cmp_borrowed = Some(|a: &$t, i, o: &<$t as Region>::Owned| {
            let x = a.index(i);
            let y = <<$t as Region>::ReadItem<'_> as IntoOwned>::borrow_as(o);
            json!({"eq": x == y, "ne": x != y, "partial_cmp": ord_json(x.partial_cmp(&y)), "cmp": ord_json(Some(x.cmp(&y))),
                   "rev_eq": y == x, "rev_cmp": ord_json(Some(y.cmp(&x)))})
        });
    };
}

fn add<R>(out: &mut Vec<Subject>, name: &'static str, caps: Caps<R>)
where
    R: Region + Shaped + 'static,
    R::Owned: Val,
    R::Index: IdxJson,
    for<'a> R::ReadItem<'a>: Render,
{
    let forms: Vec<&'static str> = caps.forms.iter().map(|f| f.0).collect();
    let reserve_forms: Vec<&'static str> = caps.reserve_forms.iter().map(|f| f.0).collect();
    let capj = json!({
        "clone": caps.clone.is_some(), "serde": caps.serde.is_some(), "push_item": caps.push_item.is_some(),
        "push_borrowed": caps.push_borrowed.is_some(), "get": caps.get.is_some(), "cmp": caps.cmp.is_some(),
        "heap": caps.has_heap, "reserve_regions": caps.has_reserve_regions,
    });
    let mut caps = caps;
    caps.seq_owned = matches!(R::shape()["k"].as_str(), Some("slice") | Some("columns") | Some("owned"));
    let caps = Rc::new(caps);
    out.push(Subject {
        name,
        shape: R::shape(),
        forms,
        reserve_forms,
        caps: capj,
        make: Box::new(move || Box::new(Slot::<R>::new(caps.clone()))),
    });
}

/// Arrays exist only for fixed lengths; longer values fall back to the slice form.
macro_rules! by_len {
    ($v:expr, $fallback:expr, [$($n:literal => $arr:expr),*]) => {
        match $v.len() { $($n => $arr,)* _ => $fallback }
    };
}

pub fn subjects() -> Vec<Subject> {
    let mut out: Vec<Subject> = vec![];

    // ---------------------------------------------------------------- terminals
    macro_rules! owned_subject {
        ($name:literal, $e:ty) => {{
            type T = OwnedRegion<$e>;
            let mut c = Caps::<T>::default();
            c.forms = vec![
                form::<T>("slice", |r, v| mpush(r, v.as_slice())),
                form::<T>("ref_vec", |r, v| mpush(r, v)),
                form::<T>("vec", |r, v| mpush(r, v.clone())),
                // an owned vector that carries spare capacity (built incrementally / with_capacity)
                form::<T>("vec_slack", |r, v| {
                    let mut a = Vec::with_capacity(v.len() + 40);
                    a.extend(v.iter().cloned());
                    mpush(r, a)
                }),
                form::<T>("refref_slice", |r, v| mpush(r, &v.as_slice())),
                form::<T>("array", |r, v| {
                    by_len!(v, mpush(r, v.as_slice()), [0 => mpush(r, [] as [$e; 0]), 1 => mpush(r, [v[0]]), 2 => mpush(r, [v[0], v[1]]), 3 => mpush(r, [v[0], v[1], v[2]])])
                }),
                form::<T>("ref_array", |r, v| {
                    by_len!(v, mpush(r, v.as_slice()), [0 => mpush(r, &([] as [$e; 0])), 1 => mpush(r, &[v[0]]), 2 => mpush(r, &[v[0], v[1]]), 3 => mpush(r, &[v[0], v[1], v[2]])])
                }),
                form::<T>("refref_array", |r, v| {
                    by_len!(v, mpush(r, v.as_slice()), [0 => mpush(r, &&([] as [$e; 0])), 1 => mpush(r, &&[v[0]]), 2 => mpush(r, &&[v[0], v[1]])])
                }),
                form::<T>("push_iter", |r, v| mpush(r, PushIter(v.clone()))),
                form::<T>("push_iter_copied", |r, v| mpush(r, PushIter(v.iter().copied()))),
                // a wrapped iterator over a read item taken from another region
                form::<T>("push_iter_read_slice", |r, v| {
                    if v.len() > 4096 {
                        return mpush(r, v.as_slice());
                    }
                    let mut tmp = SliceRegion::<MirrorRegion<$e>>::default();
                    let i = tmp.push(v.as_slice());
                    mpush(r, PushIter(tmp.index(i).iter()))
                }),
            ];
            c.reserve_forms = vec![
                rform::<T>("slice", |r, vs| r.reserve_items(vs.iter().map(|v| v.as_slice()))),
                rform::<T>("ref_vec", |r, vs| r.reserve_items(vs.iter())),
                rform::<T>("push_iter", |r, vs| r.reserve_items(vs.iter().map(|v| PushIter(v.iter().copied())))),
            ];
            clone_caps!(c, T);
            serde_caps!(c, T);
            item_caps!(c, T);
            add::<T>(&mut out, $name, c);
        }};
    }
    owned_subject!("owned_u8", u8);
    owned_subject!("owned_u64", u64);
    owned_subject!("owned_unit", ());
    owned_subject!("owned_f64", f64);

    {
        type T = StringRegion;
        let mut c = Caps::<T>::default();
        c.forms = vec![
            form::<T>("str", |r, v| mpush(r, v.as_str())),
            form::<T>("ref_string", |r, v| mpush(r, v)),
            form::<T>("string", |r, v| mpush(r, v.clone())),
            form::<T>("string_slack", |r, v| {
                let mut a = String::with_capacity(v.len() + 40);
                a.push_str(v);
                mpush(r, a)
            }),
            form::<T>("refref_str", |r, v| mpush(r, &v.as_str())),
        ];
        c.reserve_forms = vec![
            rform::<T>("str", |r, vs| r.reserve_items(vs.iter().map(|v| v.as_str()))),
            rform::<T>("ref_string", |r, vs| r.reserve_items(vs.iter())),
            rform::<T>("refref_str", |r, vs| {
                let strs: Vec<&str> = vs.iter().map(|v| v.as_str()).collect();
                r.reserve_items(strs.iter())
            }),
        ];
        clone_caps!(c, T);
        serde_caps!(c, T);
        item_caps!(c, T);
        add::<T>(&mut out, "string", c);
    }

    macro_rules! mirror_subject {
        ($name:literal, $e:ty) => {{
            type T = MirrorRegion<$e>;
            let mut c = Caps::<T>::default();
            c.forms = vec![
                form::<T>("owned", |r, v| mpush(r, *v)),
                form::<T>("ref", |r, v| mpush(r, v)),
                form::<T>("refref", |r, v| mpush(r, &v)),
            ];
            c.reserve_forms = vec![
                rform::<T>("owned", |r, vs| r.reserve_items(vs.iter().copied())),
                rform::<T>("ref", |r, vs| r.reserve_items(vs.iter())),
            ];
            clone_caps!(c, T);
            serde_caps!(c, T);
            item_caps!(c, T);
            add::<T>(&mut out, $name, c);
        }};
    }
    mirror_subject!("mirror_u8", u8);
    mirror_subject!("mirror_u64", u64);
    mirror_subject!("mirror_i8", i8);
    mirror_subject!("mirror_f64", f64);
    mirror_subject!("mirror_unit", ());
    mirror_subject!("mirror_bool", bool);
    mirror_subject!("mirror_char", char);
    mirror_subject!("mirror_usize", usize);

    {
        type T = Vec<u32>;
        let mut c = Caps::<T>::default();
        c.forms = vec![
            form::<T>("owned", |r, v| mpush::<T, u32>(r, *v)),
            form::<T>("ref", |r, v| mpush::<T, &u32>(r, v)),
            form::<T>("refref", |r, v| mpush::<T, &&u32>(r, &v)),
        ];
        c.reserve_forms = vec![rform::<T>("any", |r, vs| ReserveItems::reserve_items(r, vs.iter()))];
        clone_caps!(c, T);
        serde_caps!(c, T);
        c.push_item = Some(|d: &mut T, s: &T, i| mpush::<T, &u32>(d, s.index(i)));
        c.push_borrowed = Some(|d: &mut T, o: &u32| mpush::<T, &u32>(d, o));
        add::<T>(&mut out, "vec_u32", c);
    }
    {
        type T = Vec<String>;
        let mut c = Caps::<T>::default();
        c.forms = vec![
            form::<T>("owned", |r, v| mpush::<T, String>(r, v.clone())),
            form::<T>("ref", |r, v| mpush::<T, &String>(r, v)),
            form::<T>("refref", |r, v| mpush::<T, &&String>(r, &v)),
        ];
        c.reserve_forms = vec![rform::<T>("any", |r, vs| ReserveItems::reserve_items(r, vs.iter()))];
        clone_caps!(c, T);
        serde_caps!(c, T);
        c.push_item = Some(|d: &mut T, s: &T, i| mpush::<T, &String>(d, s.index(i)));
        c.push_borrowed = Some(|d: &mut T, o: &String| mpush::<T, &String>(d, o));
        add::<T>(&mut out, "vec_string", c);
    }

    // ---------------------------------------------------------------- fan-out
    {
        type T = OptionRegion<StringRegion>;
        let mut c = Caps::<T>::default();
        c.forms = vec![
            form::<T>("ref", |r, v| mpush(r, v)),
            form::<T>("owned", |r, v| mpush(r, v.clone())),
            form::<T>("opt_str", |r, v| mpush(r, v.as_deref())),
            form::<T>("opt_ref_string", |r, v| mpush(r, v.as_ref())),
        ];
        c.reserve_forms = vec![
            rform::<T>("ref", |r, vs| r.reserve_items(vs.iter())),
            rform::<T>("opt_str", |r, vs| r.reserve_items(vs.iter().map(|v| v.as_deref()))),
        ];
        clone_caps!(c, T);
        serde_caps!(c, T);
        item_caps!(c, T);
        add::<T>(&mut out, "opt_str", c);
    }
    {
        type T = OptionRegion<MirrorRegion<u8>>;
        let mut c = Caps::<T>::default();
        c.forms = vec![
            form::<T>("ref", |r, v| mpush(r, v)),
            form::<T>("owned", |r, v| mpush(r, *v)),
            form::<T>("opt_ref", |r, v| mpush(r, v.as_ref())),
        ];
        c.reserve_forms = vec![
            rform::<T>("ref", |r, vs| r.reserve_items(vs.iter())),
            rform::<T>("owned", |r, vs| r.reserve_items(vs.iter().copied())),
        ];
        clone_caps!(c, T);
        serde_caps!(c, T);
        item_caps!(c, T);
        add::<T>(&mut out, "opt_mirror_u8", c);
    }
    {
        type T = ResultRegion<StringRegion, MirrorRegion<u8>>;
        let mut c = Caps::<T>::default();
        c.forms = vec![
            form::<T>("ref", |r, v| mpush(r, v)),
            form::<T>("owned", |r, v| mpush(r, v.clone())),
            form::<T>("as_ref", |r, v| mpush(r, v.as_ref())),
            form::<T>("str", |r, v| mpush(r, v.as_ref().map(|s| s.as_str()).map_err(|e| *e))),
        ];
        c.reserve_forms = vec![
            rform::<T>("ref", |r, vs| r.reserve_items(vs.iter())),
            rform::<T>("str", |r, vs| r.reserve_items(vs.iter().map(|v| v.as_ref().map(|s| s.as_str()).map_err(|e| *e)))),
        ];
        clone_caps!(c, T);
        serde_caps!(c, T);
        item_caps!(c, T);
        add::<T>(&mut out, "res_str_u8", c);
    }
    {
        type T = ResultRegion<OwnedRegion<u8>, OwnedRegion<u8>>;
        let mut c = Caps::<T>::default();
        c.forms = vec![
            form::<T>("ref", |r, v| mpush(r, v)),
            form::<T>("owned", |r, v| mpush(r, v.clone())),
            form::<T>("slices", |r, v| mpush(r, v.as_ref().map(|s| s.as_slice()).map_err(|e| e.as_slice()))),
        ];
        c.reserve_forms = vec![
            rform::<T>("ref", |r, vs| r.reserve_items(vs.iter())),
            rform::<T>("slices", |r, vs| r.reserve_items(vs.iter().map(|v| v.as_ref().map(|s| s.as_slice()).map_err(|e| e.as_slice())))),
        ];
        clone_caps!(c, T);
        serde_caps!(c, T);
        item_caps!(c, T);
        add::<T>(&mut out, "res_owned_owned", c);
    }
    // plain vectors as regions UNDER fan-out regions: their reservations arrive through filtered iterators
    {
        type T = OptionRegion<Vec<u32>>;
        let mut c = Caps::<T>::default();
        c.forms = vec![
            form::<T>("ref", |r, v| mpush(r, v)),
            form::<T>("owned", |r, v| mpush(r, *v)),
            form::<T>("opt_ref", |r, v| mpush(r, v.as_ref())),
        ];
        c.reserve_forms = vec![
            rform::<T>("ref", |r, vs| r.reserve_items(vs.iter())),
            rform::<T>("owned", |r, vs| r.reserve_items(vs.iter().copied())),
        ];
        clone_caps!(c, T);
        serde_caps!(c, T);
        add::<T>(&mut out, "opt_vec_u32", c);
    }
    {
        type T = ResultRegion<Vec<u32>, Vec<String>>;
        let mut c = Caps::<T>::default();
        c.forms = vec![
            form::<T>("ref", |r, v| mpush(r, v)),
            form::<T>("owned", |r, v| mpush(r, v.clone())),
            form::<T>("as_ref", |r, v| mpush(r, v.as_ref())),
        ];
        c.reserve_forms = vec![
            rform::<T>("ref", |r, vs| r.reserve_items(vs.iter())),
            rform::<T>("as_ref", |r, vs| r.reserve_items(vs.iter().map(|v| v.as_ref()))),
        ];
        clone_caps!(c, T);
        serde_caps!(c, T);
        add::<T>(&mut out, "res_vec_vec", c);
    }
    {
        type T = TupleABRegion<MirrorRegion<u64>, StringRegion>;
        let mut c = Caps::<T>::default();
        c.forms = vec![
            form::<T>("ref", |r, v| mpush(r, v)),
            form::<T>("owned", |r, v| mpush(r, v.clone())),
            form::<T>("mixed", |r, v| mpush(r, (&v.0, v.1.as_str()))),
            form::<T>("refs", |r, v| mpush(r, (&v.0, &v.1))),
        ];
        c.reserve_forms = vec![
            rform::<T>("ref", |r, vs| r.reserve_items(vs.iter())),
            rform::<T>("owned", |r, vs| r.reserve_items(vs.iter().map(|v| (v.0, v.1.as_str())))),
        ];
        clone_caps!(c, T);
        serde_caps!(c, T);
        item_caps!(c, T);
        add::<T>(&mut out, "tuple_u64_str", c);
    }
    {
        type T = TupleABCRegion<MirrorRegion<u8>, OwnedRegion<()>, StringRegion>;
        let mut c = Caps::<T>::default();
        c.forms = vec![
            form::<T>("ref", |r, v| mpush(r, v)),
            form::<T>("owned", |r, v| mpush(r, v.clone())),
            form::<T>("mixed", |r, v| mpush(r, (v.0, v.1.as_slice(), &v.2))),
        ];
        c.reserve_forms = vec![rform::<T>("ref", |r, vs| r.reserve_items(vs.iter()))];
        clone_caps!(c, T);
        serde_caps!(c, T);
        item_caps!(c, T);
        add::<T>(&mut out, "tuple3", c);
    }
    // contents that are non-empty yet occupy ZERO heap bytes (zero-sized elements next to plain-copy fields): a
    // short cut keyed on "reports no bytes" is wrong exactly here
    {
        type T = TupleABRegion<MirrorRegion<u8>, OwnedRegion<()>>;
        let mut c = Caps::<T>::default();
        c.forms = vec![
            form::<T>("ref", |r, v| mpush(r, v)),
            form::<T>("owned", |r, v| mpush(r, v.clone())),
            form::<T>("mixed", |r, v| mpush(r, (v.0, v.1.as_slice()))),
        ];
        c.reserve_forms = vec![rform::<T>("ref", |r, vs| r.reserve_items(vs.iter()))];
        clone_caps!(c, T);
        serde_caps!(c, T);
        item_caps!(c, T);
        add::<T>(&mut out, "tuple_u8_unit", c);
    }
    {
        type T = ResultRegion<StringRegion, OwnedRegion<()>>;
        let mut c = Caps::<T>::default();
        c.forms = vec![
            form::<T>("ref", |r, v| mpush(r, v)),
            form::<T>("owned", |r, v| mpush(r, v.clone())),
            form::<T>("slices", |r, v| mpush(r, v.as_ref().map(|s| s.as_str()).map_err(|e| e.as_slice()))),
        ];
        c.reserve_forms = vec![rform::<T>("ref", |r, vs| r.reserve_items(vs.iter()))];
        clone_caps!(c, T);
        serde_caps!(c, T);
        item_caps!(c, T);
        add::<T>(&mut out, "res_str_unit", c);
    }
    {
        type T = OptionRegion<ResultRegion<StringRegion, MirrorRegion<u8>>>;
        let mut c = Caps::<T>::default();
        c.forms = vec![
            form::<T>("ref", |r, v| mpush(r, v)),
            form::<T>("owned", |r, v| mpush(r, v.clone())),
            form::<T>("opt_ref", |r, v| mpush(r, v.as_ref())),
        ];
        c.reserve_forms = vec![rform::<T>("ref", |r, vs| r.reserve_items(vs.iter()))];
        clone_caps!(c, T);
        serde_caps!(c, T);
        item_caps!(c, T);
        add::<T>(&mut out, "opt_res", c);
    }

    // ---------------------------------------------------------------- slices
    // forms shared by every SliceRegion whose element type E is pushed as `&E` and as `E`
    macro_rules! slice_forms {
        ($t:ty, $e:ty) => {
            vec![
                form::<$t>("ref_vec", |r, v| mpush(r, v)),
                form::<$t>("slice", |r, v| mpush(r, v.as_slice())),
                form::<$t>("vec", |r, v| mpush(r, v.clone())),
                form::<$t>("refref_vec", |r, v| mpush(r, &v)),
                form::<$t>("array", |r, v| {
                    by_len!(v, mpush(r, v.as_slice()), [0 => mpush(r, [] as [$e; 0]), 1 => mpush(r, [v[0].clone()]), 2 => mpush(r, [v[0].clone(), v[1].clone()]), 3 => mpush(r, [v[0].clone(), v[1].clone(), v[2].clone()])])
                }),
                form::<$t>("ref_array", |r, v| {
                    by_len!(v, mpush(r, v.as_slice()), [0 => mpush(r, &([] as [$e; 0])), 1 => mpush(r, &[v[0].clone()]), 2 => mpush(r, &[v[0].clone(), v[1].clone()])])
                }),
                form::<$t>("vec_of_refs", |r, v| mpush(r, v.iter().collect::<Vec<&$e>>())),
            ]
        };
    }
    macro_rules! slice_reserve_forms {
        ($t:ty) => {
            vec![
                rform::<$t>("ref_vec", |r, vs| r.reserve_items(vs.iter())),
                rform::<$t>("slice", |r, vs| r.reserve_items(vs.iter().map(|v| v.as_slice()))),
            ]
        };
        // additionally: announce through the read items of another region holding the batch
        ($t:ty, read_items) => {{
            let mut f = slice_reserve_forms!($t);
            f.push(rform::<$t>("read_items", |r, vs| {
                let mut tmp = <$t>::default();
                let idxs: Vec<_> = vs.iter().map(|v| tmp.push(v)).collect();
                r.reserve_items(idxs.iter().map(|i| tmp.index(*i)));
            }));
            f
        }};
    }
    macro_rules! slice_subject {
        ($name:literal, $t:ty, $e:ty $(, $extra:ident)*) => {{
            type T = $t;
            let mut c = Caps::<T>::default();
            c.forms = slice_forms!(T, $e);
            c.reserve_forms = slice_reserve_forms!(T, read_items);
            clone_caps!(c, T);
            serde_caps!(c, T);
            item_caps!(c, T);
            get_caps!(c, T);
            $( $extra!(c, T); )*
            add::<T>(&mut out, $name, c);
        }};
    }
    slice_subject!("slice_mirror_u8", SliceRegion<MirrorRegion<u8>>, u8, cmp_caps);
    slice_subject!("slice_str", SliceRegion<StringRegion>, String, cmp_caps);
    slice_subject!("slice_owned_u8", SliceRegion<OwnedRegion<u8>>, Vec<u8>, cmp_caps);
    slice_subject!("slice_slice_str", SliceRegion<SliceRegion<StringRegion>>, Vec<String>, cmp_caps);
    slice_subject!("slice3_u8", SliceRegion<SliceRegion<SliceRegion<MirrorRegion<u8>>>>, Vec<Vec<u8>>, cmp_caps);
    slice_subject!("slice_tuple", SliceRegion<TupleABRegion<MirrorRegion<u8>, StringRegion>>, (u8, String));
    slice_subject!("slice_cip_str_opt", SliceRegion<Cip<StringRegion>, IndexOptimized>, String, cmp_caps);
    slice_subject!("slice_cip_str_list", SliceRegion<Cip<StringRegion>, IList>, String, cmp_caps);
    slice_subject!("slice_opt_str", SliceRegion<OptionRegion<StringRegion>>, Option<String>, cmp_caps);
    slice_subject!("slice_vec_u32", SliceRegion<Vec<u32>>, u32);
    // the inner index IS the value: arbitrary usize sequences reach the index container through a region
    slice_subject!("slice_mirror_usize_opt", SliceRegion<MirrorRegion<usize>, IndexOptimized>, usize, cmp_caps);
    slice_subject!("slice_mirror_usize_list", SliceRegion<MirrorRegion<usize>, IList>, usize, cmp_caps);
    {
        // bench composition: the &&str form is not offered (no `&&str: PartialEq<&str>`)
        type T = SliceRegion<CollapseSequence<Cip<StringRegion>>, IndexOptimized>;
        let mut c = Caps::<T>::default();
        c.forms = vec![
            form::<T>("ref_vec", |r, v| mpush(r, v)),
            form::<T>("slice", |r, v| mpush(r, v.as_slice())),
            form::<T>("vec", |r, v| mpush(r, v.clone())),
            form::<T>("vec_of_strs", |r, v| mpush(r, v.iter().map(String::as_str).collect::<Vec<&str>>())),
        ];
        // no ReserveItems: CollapseSequence does not implement it
        clone_caps!(c, T);
        serde_caps!(c, T);
        item_caps!(c, T);
        get_caps!(c, T);
        cmp_caps!(c, T);
        add::<T>(&mut out, "slice_collapse_cip_str", c);
    }

    // ---------------------------------------------------------------- wrappers
    macro_rules! string_like_forms {
        ($t:ty) => {
            vec![
                form::<$t>("str", |r, v| mpush(r, v.as_str())),
                form::<$t>("ref_string", |r, v| mpush(r, v)),
                form::<$t>("string", |r, v| mpush(r, v.clone())),
                form::<$t>("string_slack", |r, v| {
                    let mut a = String::with_capacity(v.len() + 40);
                    a.push_str(v);
                    mpush(r, a)
                }),
            ]
        };
    }
    macro_rules! string_like_reserve {
        ($t:ty) => {
            vec![
                rform::<$t>("str", |r, vs| r.reserve_items(vs.iter().map(|v| v.as_str()))),
                rform::<$t>("ref_string", |r, vs| r.reserve_items(vs.iter())),
            ]
        };
    }
    macro_rules! string_like_reserve_or_empty {
        ($t:ty, true) => {
            string_like_reserve!($t)
        };
        ($t:ty, false) => {
            vec![]
        };
    }
    macro_rules! stringish_subject {
        ($name:literal, $t:ty, reserve: $res:tt) => {{
            type T = $t;
            let mut c = Caps::<T>::default();
            c.forms = string_like_forms!(T);
            c.reserve_forms = string_like_reserve_or_empty!(T, $res);
            clone_caps!(c, T);
            serde_caps!(c, T);
            item_caps!(c, T);
            add::<T>(&mut out, $name, c);
        }};
    }
    // CollapseSequence has no ReserveItems implementation
    stringish_subject!("collapse_str", CollapseSequence<StringRegion>, reserve: false);
    stringish_subject!("collapse_cip_str", CollapseSequence<Cip<StringRegion>>, reserve: false);
    stringish_subject!("cip_str_opt", Cip<StringRegion, IndexOptimized>, reserve: true);
    stringish_subject!("cip_str_vec", Cip<StringRegion, Vec<usize>>, reserve: true);
    stringish_subject!("cip_str_list", Cip<StringRegion, IList>, reserve: true);

    macro_rules! bytes_like_reserve {
        ($t:ty, true) => {
            vec![
                rform::<$t>("slice", |r, vs| r.reserve_items(vs.iter().map(|v| v.as_slice()))),
                rform::<$t>("ref_vec", |r, vs| r.reserve_items(vs.iter())),
            ]
        };
        ($t:ty, false) => {
            vec![]
        };
    }
    macro_rules! bytes_like_subject {
        ($name:literal, $t:ty, $e:ty, reserve: $res:tt) => {{
            type T = $t;
            let mut c = Caps::<T>::default();
            c.forms = vec![
                form::<T>("slice", |r, v| mpush(r, v.as_slice())),
                form::<T>("ref_vec", |r, v| mpush(r, v)),
                form::<T>("vec", |r, v| mpush(r, v.clone())),
                // an owned vector that carries spare capacity (built incrementally / with_capacity)
                form::<T>("vec_slack", |r, v| {
                    let mut a = Vec::with_capacity(v.len() + 40);
                    a.extend(v.iter().cloned());
                    mpush(r, a)
                }),
            ];
            c.reserve_forms = bytes_like_reserve!(T, $res);
            clone_caps!(c, T);
            serde_caps!(c, T);
            item_caps!(c, T);
            add::<T>(&mut out, $name, c);
        }};
    }
    bytes_like_subject!("collapse_owned_u8", CollapseSequence<OwnedRegion<u8>>, u8, reserve: false);
    bytes_like_subject!("collapse_owned_f64", CollapseSequence<OwnedRegion<f64>>, f64, reserve: false);
    bytes_like_subject!("cip_owned_u8", Cip<OwnedRegion<u8>>, u8, reserve: true);
    // pair indexing over a region of slices: every empty slice must still get a dense (start, start) range
    bytes_like_subject!("cip_slice_str", Cip<SliceRegion<StringRegion>>, String, reserve: false);
    bytes_like_subject!("cip_owned_unit_list", Cip<OwnedRegion<()>, IList>, (), reserve: true);
    bytes_like_subject!("cip_owned_unit_opt", Cip<OwnedRegion<()>, IndexOptimized>, (), reserve: true);
    {
        type T = CollapseSequence<MirrorRegion<u8>>;
        let mut c = Caps::<T>::default();
        c.forms = vec![form::<T>("owned", |r, v| mpush(r, *v))];
        clone_caps!(c, T);
        serde_caps!(c, T);
        item_caps!(c, T);
        add::<T>(&mut out, "collapse_mirror_u8", c);
    }
    {
        type T = TupleABRegion<CollapseSequence<StringRegion>, CollapseSequence<OwnedRegion<u8>>>;
        let mut c = Caps::<T>::default();
        c.forms = vec![
            form::<T>("ref", |r, v| mpush(r, v)),
            form::<T>("owned", |r, v| mpush(r, v.clone())),
            form::<T>("mixed", |r, v| mpush(r, (v.0.as_str(), v.1.as_slice()))),
        ];
        clone_caps!(c, T);
        serde_caps!(c, T);
        item_caps!(c, T);
        add::<T>(&mut out, "tuple_collapse2", c);
    }

    // ---------------------------------------------------------------- columns
    macro_rules! columns_forms {
        ($t:ty, $e:ty, true) => {{
            let mut f = columns_forms!($t, $e, false);
            f.extend(vec![
                form::<$t>("slice", |r, v| mpush(r, v.as_slice())),
                form::<$t>("ref_vec", |r, v| mpush(r, v)),
                form::<$t>("ref_array", |r, v| {
                    by_len!(v, mpush(r, v.as_slice()), [0 => mpush(r, &([] as [$e; 0])), 1 => mpush(r, &[v[0].clone()]), 2 => mpush(r, &[v[0].clone(), v[1].clone()]), 3 => mpush(r, &[v[0].clone(), v[1].clone(), v[2].clone()])])
                }),
                form::<$t>("push_iter_refs", |r, v| mpush(r, PushIter(v.iter()))),
            ]);
            f
        }};
        ($t:ty, $e:ty, false) => {
            vec![
                form::<$t>("vec", |r, v| mpush(r, v.clone())),
                form::<$t>("array", |r, v| {
                    by_len!(v, mpush(r, v.clone()), [0 => mpush(r, [] as [$e; 0]), 1 => mpush(r, [v[0].clone()]), 2 => mpush(r, [v[0].clone(), v[1].clone()]), 3 => mpush(r, [v[0].clone(), v[1].clone(), v[2].clone()])])
                }),
                form::<$t>("push_iter_owned", |r, v| mpush(r, PushIter(v.clone()))),
            ]
        };
    }
    macro_rules! columns_subject {
        ($name:literal, $t:ty, $e:ty, refs: $refs:tt) => {{
            type T = $t;
            let mut c = Caps::<T>::default();
            c.forms = columns_forms!(T, $e, $refs);
            clone_caps!(c, T);
            serde_caps!(c, T);
            item_caps!(c, T);
            get_caps!(c, T);
            add::<T>(&mut out, $name, c);
        }};
    }
    columns_subject!("cols_mirror_u8", ColumnsRegion<MirrorRegion<u8>>, u8, refs: true);
    columns_subject!("cols_str", ColumnsRegion<StringRegion>, String, refs: true);
    columns_subject!("cols_owned_u8", ColumnsRegion<OwnedRegion<u8>>, Vec<u8>, refs: true);
    columns_subject!("cols_cip_str", ColumnsRegion<Cip<StringRegion>>, String, refs: true);
    columns_subject!("cols_collapse_cip_str", ColumnsRegion<CollapseSequence<Cip<StringRegion>>>, String, refs: true);
    columns_subject!("cols_str_vecic", ColumnsRegion<StringRegion, Vec<usize>>, String, refs: true);
    columns_subject!("cols_str_list", ColumnsRegion<StringRegion, IList>, String, refs: true);

    out
}

thread_local! {
    static CACHE: std::cell::RefCell<std::collections::HashMap<String, Rc<Subject>>> = Default::default();
}

pub fn find(name: &str) -> Rc<Subject> {
    CACHE.with(|c| {
        let mut c = c.borrow_mut();
        if c.is_empty() {
            for s in subjects() {
                c.insert(s.name.to_string(), Rc::new(s));
            }
        }
        c.get(name).cloned().unwrap_or_else(|| {
            eprintln!("TOOL-ERROR: subject {name} is not in the harness catalogue");
            std::process::exit(2)
        })
    })
}

/// The catalogue as JSON: read by the TLA+ model (shapes, forms) and compared with the committed copy.
pub fn catalogue_json() -> Value {
    Value::Array(
        subjects()
            .iter()
            .map(|s| json!({"name": s.name, "shape": s.shape, "forms": s.forms, "reserve_forms": s.reserve_forms, "caps": s.caps}))
            .collect(),
    )
}
