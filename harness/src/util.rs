//! Shared helpers: TLC edge-line decoding, panic capture, result files.
use serde_json::{json, Value};
use std::io::{BufRead, BufReader};
use std::panic::{catch_unwind, AssertUnwindSafe};

/// Decode one line of TLC output. Lines look like
/// `<<"EDGE", "{\"kind\": ... }">>`; anything else is ignored.
pub fn decode_edge_line(line: &str) -> Option<Value> {
    let line = line.trim_end();
    let rest = line.strip_prefix("<<\"EDGE\", ")?;
    let lit = rest.strip_suffix(">>")?;
    let inner: String = serde_json::from_str(lit).ok()?;
    serde_json::from_str(&inner).ok()
}

/// Iterate over edges of a file: raw TLC output or plain ndjson.
pub fn for_each_edge<F: FnMut(Value)>(path: &str, mut f: F) -> std::io::Result<u64> {
    let file = std::fs::File::open(path)?;
    let reader = BufReader::with_capacity(1 << 20, file);
    let mut n = 0;
    for line in reader.lines() {
        let line = line?;
        if line.starts_with("<<\"EDGE\"") {
            if let Some(v) = decode_edge_line(&line) {
                n += 1;
                f(v);
            } else {
                eprintln!("TOOL-ERROR: undecodable edge line: {}", &line[..line.len().min(200)]);
                std::process::exit(2);
            }
        } else if line.starts_with('{') {
            match serde_json::from_str(&line) {
                Ok(v) => {
                    n += 1;
                    f(v)
                }
                Err(e) => {
                    eprintln!("TOOL-ERROR: bad json line: {e}");
                    std::process::exit(2);
                }
            }
        }
    }
    Ok(n)
}

/// Run `f`, turning a panic into `Err(message)`. A panic in the code under test is data.
pub fn guarded<T, F: FnOnce() -> T>(f: F) -> Result<T, String> {
    match catch_unwind(AssertUnwindSafe(f)) {
        Ok(v) => Ok(v),
        Err(e) => {
            let msg = if let Some(s) = e.downcast_ref::<&str>() {
                s.to_string()
            } else if let Some(s) = e.downcast_ref::<String>() {
                s.clone()
            } else {
                "panic".to_string()
            };
            Err(msg)
        }
    }
}

pub fn quiet_panics() {
    std::panic::set_hook(Box::new(|_| {}));
}

/// Collects judged cases and violations, writes the result file read by ./check.
pub struct Report {
    pub cases: u64,
    pub judged: u64,
    pub violations: Vec<Value>,
    pub violation_count: u64,
    pub by_kind: std::collections::BTreeMap<String, (u64, u64)>,
    pub samples: Vec<Value>,
    pub max_keep: usize,
    pub extra: serde_json::Map<String, Value>,
}

impl Report {
    pub fn new() -> Self {
        Report {
            cases: 0,
            judged: 0,
            violations: vec![],
            violation_count: 0,
            by_kind: Default::default(),
            samples: vec![],
            max_keep: 25,
            extra: Default::default(),
        }
    }
    pub fn case(&mut self, kind: &str, judged: bool) {
        self.cases += 1;
        let e = self.by_kind.entry(kind.to_string()).or_insert((0, 0));
        e.0 += 1;
        if judged {
            self.judged += 1;
            e.1 += 1;
        }
    }
    pub fn sample(&mut self, v: &Value) {
        // keep a few evenly spread samples
        let n = self.cases;
        if self.samples.len() < 3 && (n == 1 || n == 1000 || n == 100000) {
            self.samples.push(v.clone());
        }
    }
    pub fn violation(&mut self, v: Value) {
        self.violation_count += 1;
        // keep the first few of each signature
        let sig = v.get("sig").and_then(|s| s.as_str()).unwrap_or("").to_string();
        let same = self
            .violations
            .iter()
            .filter(|x| x.get("sig").and_then(|s| s.as_str()).unwrap_or("") == sig)
            .count();
        if same < 3 && self.violations.len() < self.max_keep {
            self.violations.push(v);
        }
    }
    pub fn write(&self, out: &str, profile: &str) {
        let kinds: serde_json::Map<String, Value> = self
            .by_kind
            .iter()
            .map(|(k, (c, j))| (k.clone(), json!({"cases": c, "judged": j})))
            .collect();
        let mut v = json!({
            "profile": profile,
            "cases": self.cases,
            "judged": self.judged,
            "violation_count": self.violation_count,
            "violations": self.violations,
            "by_kind": kinds,
            "samples": self.samples,
        });
        for (k, x) in &self.extra {
            v[k] = x.clone();
        }
        std::fs::write(out, serde_json::to_string_pretty(&v).unwrap()).expect("write result");
    }
}

pub fn profile_name() -> &'static str {
    if cfg!(debug_assertions) {
        "dev(overflow-checks,debug-assertions)"
    } else {
        "release(wrapping)"
    }
}
