//! Per-property judges over replayed edges.
//!
//! Absolute properties compare the real observation with the specification's prediction
//! (edge["obs"], edge["res"]).  Relative properties (clear makes fresh, copies behave alike,
//! pre-sizing is invisible, input forms are interchangeable) compare two REAL executions with
//! each other: the path the model produced and a transformed twin of it.  A check therefore
//! fails only on what its property states.
use crate::interp::*;
use crate::util::*;
use serde_json::{json, Value};

fn has_marker(v: &Value, marker: &str) -> bool {
    match v {
        Value::Object(m) => m.contains_key(marker) || m.values().any(|x| has_marker(x, marker)),
        Value::Array(a) => a.iter().any(|x| has_marker(x, marker)),
        _ => false,
    }
}

/// all strings (byte arrays) inside a value, walking the shape
pub fn strings_of(shape: &Value, v: &Value, out: &mut Vec<Value>) {
    let k = shape["k"].as_str().unwrap_or("");
    match k {
        "string" => out.push(v.clone()),
        "vecreg" => {
            if shape["t"] == "string" {
                out.push(v.clone())
            }
        }
        "option" => {
            if v["t"] == "some" {
                strings_of(&shape["inner"], &v["v"], out)
            }
        }
        "result" => {
            if v["t"] == "ok" {
                strings_of(&shape["ok"], &v["v"], out)
            } else if v["t"] == "err" {
                strings_of(&shape["err"], &v["v"], out)
            }
        }
        "tuple" => {
            if let (Some(fs), Some(vs)) = (shape["fs"].as_array(), v.as_array()) {
                for (f, x) in fs.iter().zip(vs) {
                    strings_of(f, x, out)
                }
            }
        }
        "slice" | "columns" => {
            if let Some(vs) = v.as_array() {
                for x in vs {
                    strings_of(&shape["inner"], x, out)
                }
            }
        }
        "collapse" | "cip" => strings_of(&shape["inner"], v, out),
        _ => {}
    }
}

fn empty_obs(n: usize) -> Value {
    Value::Array((0..n).map(|_| json!({"n": 0, "idx": [], "reads": [], "used": 0, "caps": [], "pairs_ok": true})).collect())
}

fn obs_before<'a>(steps: &'a [Step], j: usize, init: &'a Value) -> &'a Value {
    if j == 0 {
        init
    } else {
        &steps[j - 1].obs
    }
}

fn content_eq(a: &Value, b: &Value) -> bool {
    a["n"] == b["n"] && a["idx"] == b["idx"] && a["reads"] == b["reads"]
}

fn opname(op: &Value) -> &str {
    op["op"].as_str().unwrap_or("")
}

/// The model continues only ONE of the paths that reach a state (TLC extends one path per VIEW state), so an
/// edge ending in a clear or a copy may be the only edge with *this* prior history and carries no continuation
/// of its own.  The values pushed anywhere before position `k` (first occurrence of each, with the form the
/// path used) are pushed again as a synthetic continuation: the specification says that the cleared region is
/// the initial state and that a copy is its source, so every such continuation has to be answered alike.
fn synthetic_pushes(path: &[Value], k: usize) -> Vec<Value> {
    let mut out: Vec<Value> = vec![];
    for op in &path[..k] {
        if opname(op) == "push" && !out.iter().any(|o| o["v"] == op["v"]) {
            out.push(op.clone());
        }
    }
    out
}

fn short(v: &Value) -> String {
    let s = v.to_string();
    s.chars().take(300).collect()
}

pub struct Verdict {
    pub judged: bool,
    pub why: Vec<String>,
    pub detail: Value,
}

impl Verdict {
    fn skip() -> Verdict {
        Verdict { judged: false, why: vec![], detail: Value::Null }
    }
    fn new() -> Verdict {
        Verdict { judged: true, why: vec![], detail: Value::Null }
    }
    fn fail(&mut self, tag: &str, detail: Value) {
        if self.why.is_empty() {
            self.detail = detail;
        }
        self.why.push(tag.to_string());
    }
}

fn first_push_panic(path: &[Value], steps: &[Step]) -> Option<(usize, String)> {
    for (i, (op, st)) in path.iter().zip(steps).enumerate() {
        if let Err(m) = &st.result {
            if matches!(opname(op), "push" | "push_from") {
                return Some((i, m.clone()));
            }
        }
    }
    None
}

fn any_panic(steps: &[Step]) -> Option<(usize, String)> {
    steps.iter().enumerate().find_map(|(i, s)| s.result.as_ref().err().map(|m| (i, m.clone())))
}

/// replay `path` in a fresh world
fn run(subj: &str, nslots: usize, path: &[Value]) -> (World, Vec<Step>) {
    let mut w = World::new(subj, nslots);
    let steps = w.replay(path);
    (w, steps)
}

/// The model ignores the input form of a push (C20), so every assignment of forms to the pushes of
/// a path is a behaviour of the model. TLC's search extends only one path per state; the forms of
/// the earlier pushes are therefore re-drawn here (deterministically, from the path itself) so that
/// histories mix forms. The last operation keeps the form the edge was emitted for.
fn diversify_forms(subj: &str, edge: &Value) -> Vec<Value> {
    let path: &[Value] = edge["path"].as_array().expect("edge.path");
    if edge["fixed_forms"] == json!(true) {
        return path.to_vec(); // a stored replay: execute exactly what was recorded
    }
    let nforms = crate::catalogue::find(subj).forms.len().max(1);
    let mut h: u64 = 0xcbf29ce484222325;
    for b in serde_json::to_string(&path).unwrap_or_default().bytes() {
        h = (h ^ b as u64).wrapping_mul(0x100000001b3);
    }
    let n = path.len();
    path.iter()
        .enumerate()
        .map(|(i, op)| {
            if i + 1 < n && op["op"] == "push" {
                let mut o = op.clone();
                h = h.rotate_left(13).wrapping_mul(0x9e3779b97f4a7c15);
                o["f"] = json!((h >> 33) as usize % nforms);
                o
            } else {
                op.clone()
            }
        })
        .collect()
}

pub fn judge(edge: &Value, prop: &str) -> Verdict {
    let subj = edge["subj"].as_str().expect("edge.subj");
    let diversified = diversify_forms(subj, edge);
    let path: &Vec<Value> = &diversified;
    let exp = &edge["obs"];
    let nslots = exp.as_array().map(|a| a.len()).unwrap_or(1);
    let init = empty_obs(nslots);
    let n = path.len();
    if n == 0 {
        return Verdict::skip();
    }
    let last = &path[n - 1];
    let (world, steps) = run(subj, nslots, path);
    let fin = &steps[n - 1].obs;
    let mut v = Verdict::new();
    let unsupported = steps.iter().any(|s| s.result.as_ref().map(|r| r.get("unsupported").is_some()).unwrap_or(false));
    if unsupported {
        return Verdict::skip();
    }
    // values a self-describing text format cannot carry (NaN) make serde itself fail: outside every
    // property's domain except that C16 reports a failing round trip of representable data
    let serde_failed = steps.iter().any(|s| s.result.as_ref().map(|r| r.get("serde_error").is_some()).unwrap_or(false));
    if serde_failed && prop != "C16" {
        return Verdict::skip();
    }

    match prop {
        // ------------------------------------------------------------------ C01 round trip
        "C01" => {
            if !matches!(opname(last), "push" | "push_from") {
                return Verdict::skip();
            }
            if let Some((i, m)) = first_push_panic(path, &steps) {
                v.fail("push-panicked", json!({"step": i, "msg": m}));
                return v;
            }
            if any_panic(&steps).is_some() {
                return Verdict::skip();
            }
            let t = target_slot(last).unwrap();
            let k = exp[t]["reads"].as_array().map(|a| a.len()).unwrap_or(0);
            if k == 0 {
                return Verdict::skip();
            }
            let want = &exp[t]["reads"][k - 1];
            let got = &fin[t]["reads"][k - 1];
            if got != want {
                let tag = if has_marker(got, "INCONSISTENT") {
                    "accessors-disagree"
                } else if has_marker(got, "PANIC") {
                    "read-panicked"
                } else if has_marker(got, "INVALID_UTF8") {
                    "invalid-utf8"
                } else {
                    "read-differs"
                };
                v.fail(tag, json!({"slot": t + 1, "id": k - 1, "expected": want, "observed": got}));
            }
        }
        // ------------------------------------------------------------------ C02 append-only
        "C02" => {
            if !matches!(opname(last), "push" | "push_from" | "reserve_items" | "reserve_regions") {
                return Verdict::skip();
            }
            if any_panic(&steps).is_some() {
                return Verdict::skip();
            }
            let t = target_slot(last).unwrap();
            let before = &obs_before(&steps, n - 1, &init)[t];
            let after = &fin[t];
            let nb = before["n"].as_u64().unwrap_or(0) as usize;
            for i in 0..nb {
                if after["reads"][i] != before["reads"][i] {
                    v.fail("earlier-read-changed", json!({"slot": t + 1, "id": i, "before": before["reads"][i], "after": after["reads"][i]}));
                    break;
                }
            }
        }
        // ------------------------------------------------------------------ C04 strings
        "C04" => {
            if any_panic(&steps).is_some() {
                return Verdict::skip();
            }
            let shape = &world.subject.shape;
            for s in 0..nslots {
                let mut pushed: Vec<Value> = vec![];
                if let Some(rs) = exp[s]["reads"].as_array() {
                    for r in rs {
                        strings_of(shape, r, &mut pushed);
                    }
                }
                if let Some(rs) = fin[s]["reads"].as_array() {
                    for (i, r) in rs.iter().enumerate() {
                        if has_marker(r, "INVALID_UTF8") {
                            v.fail("invalid-utf8", json!({"slot": s + 1, "id": i, "read": r}));
                            continue;
                        }
                        if has_marker(r, "PANIC") || has_marker(r, "INCONSISTENT") {
                            continue;
                        }
                        let mut got: Vec<Value> = vec![];
                        strings_of(shape, r, &mut got);
                        for g in got {
                            if !pushed.contains(&g) {
                                v.fail("string-never-pushed", json!({"slot": s + 1, "id": i, "string": g, "pushed": pushed}));
                            }
                        }
                    }
                }
            }
        }
        // ------------------------------------------------------------------ C08 clear makes fresh
        "C08" => {
            let Some(k) = path.iter().rposition(|o| opname(o) == "clear") else { return Verdict::skip() };
            let s = target_slot(&path[k]).unwrap();
            if steps[..=k].iter().any(|st| st.result.is_err()) {
                return Verdict::skip();
            }
            let mut twin_path = path.clone();
            twin_path[k] = json!({"op": "fresh", "s": s + 1});
            let mut path = path.clone();
            let mut steps = steps;
            if k + 1 == n {
                for mut op in synthetic_pushes(&path, k) {
                    op["s"] = json!(s + 1);
                    path.push(op.clone());
                    twin_path.push(op);
                }
                steps = run(subj, nslots, &path).1;
            }
            let n = path.len();
            let (_w2, steps2) = run(subj, nslots, &twin_path);
            for j in k..n {
                let (a, b) = (&steps[j], &steps2[j]);
                let ra = a.result.as_ref().map(|x| x.get("idx").cloned()).map_err(|_| "panic");
                let rb = b.result.as_ref().map(|x| x.get("idx").cloned()).map_err(|_| "panic");
                if target_slot(&path[j]) == Some(s) && ra != rb {
                    v.fail("result-differs-from-fresh", json!({"step": j, "after_clear": short(&json!(a.result.as_ref().ok())), "fresh": short(&json!(b.result.as_ref().ok()))}));
                    break;
                }
                if !content_eq(&a.obs[s], &b.obs[s]) {
                    v.fail("reads-differ-from-fresh", json!({"step": j, "after_clear": a.obs[s], "fresh": b.obs[s]}));
                    break;
                }
            }
        }
        // ------------------------------------------------------------------ C09 / C16 copies
        "C09" | "C16" => {
            let copy_ops: &[&str] = if prop == "C09" { &["clone", "clone_from"] } else { &["serde"] };
            let Some(k) = path.iter().rposition(|o| copy_ops.contains(&opname(o))) else { return Verdict::skip() };
            if steps[..k].iter().any(|st| st.result.is_err()) {
                return Verdict::skip();
            }
            let d = path[k]["d"].as_u64().unwrap() as usize - 1;
            let s = path[k]["s"].as_u64().unwrap() as usize - 1;
            match &steps[k].result {
                Err(m) => {
                    v.fail("copy-panicked", json!({"step": k, "msg": m}));
                    return v;
                }
                Ok(r) if r.get("serde_error").is_some() => {
                    v.fail("serde-failed", r.clone());
                    return v;
                }
                _ => {}
            }
            // (a) immediately equal
            if !content_eq(&steps[k].obs[d], &steps[k].obs[s]) {
                v.fail("copy-reads-differently", json!({"copy": steps[k].obs[d], "original": steps[k].obs[s]}));
                return v;
            }
            // (b) independent evolution on the model's own continuation
            for j in (k + 1)..n {
                if let Some(t) = target_slot(&path[j]) {
                    for x in [d, s] {
                        if x != t && !content_eq(&steps[j].obs[x], &steps[j - 1].obs[x]) && steps[j].result.is_ok() {
                            v.fail("not-independent", json!({"step": j, "op": path[j], "slot": x + 1, "before": steps[j - 1].obs[x], "after": steps[j].obs[x]}));
                            return v;
                        }
                    }
                }
            }
            // (c) both answer the same continuation identically
            let (mut w3, _) = run(subj, nslots, &path[..=k]);
            for j in (k + 1)..n {
                let op = &path[j];
                let Some(t) = target_slot(op) else { continue };
                if t != d && t != s {
                    let _ = w3.apply(op);
                    continue;
                }
                if !matches!(opname(op), "push" | "clear" | "reserve_items") {
                    continue;
                }
                let mut od = op.clone();
                od["s"] = json!(d + 1);
                let mut os = op.clone();
                os["s"] = json!(s + 1);
                let rd = w3.apply(&od);
                let rs = w3.apply(&os);
                let (xd, xs) = (w3.observe_slot(d), w3.observe_slot(s));
                let same_result = match (&rd, &rs) {
                    (Ok(a), Ok(b)) => a == b,
                    (Err(_), Err(_)) => true,
                    _ => false,
                };
                if !same_result || !content_eq(&xd, &xs) {
                    v.fail("copy-continues-differently", json!({"step": j, "op": op, "copy": {"res": short(&json!(rd.ok())), "obs": xd}, "original": {"res": short(&json!(rs.ok())), "obs": xs}}));
                    return v;
                }
            }
            // (d) the copy was the last step: a synthetic continuation over every value pushed before it
            if k + 1 == n {
                for op in synthetic_pushes(path, k) {
                    let mut od = op.clone();
                    od["s"] = json!(d + 1);
                    let mut os = op.clone();
                    os["s"] = json!(s + 1);
                    let rd = w3.apply(&od);
                    let rs = w3.apply(&os);
                    let (xd, xs) = (w3.observe_slot(d), w3.observe_slot(s));
                    let same_result = match (&rd, &rs) {
                        (Ok(a), Ok(b)) => a == b,
                        (Err(_), Err(_)) => true,
                        _ => false,
                    };
                    if !same_result || !content_eq(&xd, &xs) {
                        v.fail("copy-continues-differently", json!({"synthetic": true, "op": op, "copy": {"res": short(&json!(rd.ok())), "obs": xd}, "original": {"res": short(&json!(rs.ok())), "obs": xs}}));
                        return v;
                    }
                }
            }
        }
        // ------------------------------------------------------------------ C10 pre-sizing / merge
        "C10" => {
            let has_reserve = path.iter().any(|o| matches!(opname(o), "reserve_items" | "reserve_regions"));
            let merge_at = path.iter().rposition(|o| opname(o) == "merge");
            if !has_reserve && merge_at.is_none() {
                return Verdict::skip();
            }
            if has_reserve {
                // a reserve call itself must not panic, and the twin without reservations must agree
                for (j, op) in path.iter().enumerate() {
                    if matches!(opname(op), "reserve_items" | "reserve_regions") {
                        if let Err(m) = &steps[j].result {
                            v.fail("reserve-panicked", json!({"step": j, "msg": m}));
                            return v;
                        }
                    }
                }
                let twin_path: Vec<Value> = path.iter().filter(|o| !matches!(opname(o), "reserve_items" | "reserve_regions")).cloned().collect();
                let (w2, steps2) = run(subj, nslots, &twin_path);
                if steps2.iter().any(|s| s.result.is_err()) || steps.iter().any(|s| s.result.is_err()) {
                    // a panic elsewhere: compare panic positions only loosely
                    let a = steps.iter().filter(|s| s.result.is_err()).count();
                    let b = steps2.iter().filter(|s| s.result.is_err()).count();
                    if a != b {
                        v.fail("reserve-changes-panics", json!({"with": a, "without": b}));
                    }
                } else {
                    let o2 = w2.observe();
                    for s in 0..nslots {
                        if !content_eq(&fin[s], &o2[s]) {
                            v.fail("reserve-visible", json!({"slot": s + 1, "with_reserve": fin[s], "without": o2[s]}));
                            break;
                        }
                    }
                }
            }
            if let Some(k) = merge_at {
                let d = path[k]["d"].as_u64().unwrap() as usize - 1;
                if steps[..k].iter().any(|st| st.result.is_err()) {
                    return if v.why.is_empty() { Verdict::skip() } else { v };
                }
                if let Err(m) = &steps[k].result {
                    v.fail("merge-panicked", json!({"step": k, "msg": m}));
                    return v;
                }
                if steps[k].obs[d]["n"] != json!(0) {
                    v.fail("merged-not-empty", steps[k].obs[d].clone());
                }
                let before = obs_before(&steps, k, &init);
                for x in 0..nslots {
                    if x != d && !content_eq(&steps[k].obs[x], &before[x]) {
                        v.fail("merge-changed-source", json!({"slot": x + 1}));
                    }
                }
                // reads back exactly what is subsequently pushed into it
                for j in (k + 1)..n {
                    if target_slot(&path[j]) == Some(d) && matches!(opname(&path[j]), "push" | "push_from") {
                        if let Err(m) = &steps[j].result {
                            v.fail("push-into-merged-panicked", json!({"step": j, "msg": m}));
                            break;
                        }
                    }
                }
                if v.why.is_empty() && steps.iter().all(|s| s.result.is_ok()) && fin[d]["reads"] != exp[d]["reads"] {
                    v.fail("merged-reads-differ", json!({"expected": exp[d]["reads"], "observed": fin[d]["reads"]}));
                }
            }
        }
        // ------------------------------------------------------------------ C11 collapse
        "C11" => {
            // "otherwise it stores the item and returns an index": a push that panics does neither
            if let Some((i, m)) = first_push_panic(path, &steps) {
                v.fail("push-panicked", json!({"step": i, "msg": m}));
                return v;
            }
            if any_panic(&steps).is_some() {
                return Verdict::skip();
            }
            for s in 0..nslots {
                let (ri, ei) = (fin[s]["idx"].as_array(), exp[s]["idx"].as_array());
                let (Some(ri), Some(ei)) = (ri, ei) else { continue };
                if ri.len() != ei.len() {
                    v.fail("issued-count", json!({"slot": s + 1}));
                    continue;
                }
                'outer: for i in 0..ri.len() {
                    for j in 0..i {
                        if (ri[i] == ri[j]) != (ei[i] == ei[j]) {
                            v.fail(
                                if ei[i] == ei[j] { "not-collapsed" } else { "collapsed-unequal" },
                                json!({"slot": s + 1, "i": j, "j": i, "observed_idx": ri, "spec_idx": ei, "values": exp[s]["reads"]}),
                            );
                            break 'outer;
                        }
                    }
                }
                if fin[s]["reads"] != exp[s]["reads"] {
                    v.fail("collapsed-read-differs", json!({"slot": s + 1, "expected": exp[s]["reads"], "observed": fin[s]["reads"]}));
                }
            }
            if matches!(opname(last), "push" | "push_from") {
                let t = target_slot(last).unwrap();
                let before = &obs_before(&steps, n - 1, &init)[t];
                if let (Some(a), Some(b), Some(d)) = (fin[t]["used"].as_i64(), before["used"].as_i64(), edge["res"]["dused"].as_i64()) {
                    if (a - b == 0) != (d == 0) {
                        v.fail(if d == 0 { "stored-despite-equal" } else { "stored-nothing" }, json!({"observed_delta": a - b, "spec_delta": d}));
                    }
                }
            }
        }
        // ------------------------------------------------------------------ C12 dense indices
        "C12" => {
            if any_panic(&steps).is_some() {
                return Verdict::skip();
            }
            for s in 0..nslots {
                if fin[s]["idx"] != exp[s]["idx"] {
                    v.fail("index-not-dense", json!({"slot": s + 1, "expected": exp[s]["idx"], "observed": fin[s]["idx"]}));
                }
                if fin[s]["reads"] != exp[s]["reads"] {
                    v.fail("kth-read-differs", json!({"slot": s + 1, "expected": exp[s]["reads"], "observed": fin[s]["reads"]}));
                }
            }
        }
        // ------------------------------------------------------------------ C13 / C14 / C15 queries
        "C13" | "C14" | "C15" => {
            let want_op: &[&str] = match prop {
                "C13" => &["get"],
                "C14" => &["clone_onto", "borrow", "push_from"],
                _ => &["cmp"],
            };
            if !want_op.contains(&opname(last)) {
                return Verdict::skip();
            }
            if steps[..n - 1].iter().any(|s| s.result.is_err()) {
                return Verdict::skip();
            }
            if opname(last) == "push_from" {
                // the copied item equals the source item (both real), and the source is untouched
                match &steps[n - 1].result {
                    Err(m) => v.fail("push-from-panicked", json!({"msg": m})),
                    Ok(_) => {
                        let d = last["d"].as_u64().unwrap() as usize - 1;
                        let s = last["s"].as_u64().unwrap() as usize - 1;
                        let i = last["i"].as_u64().unwrap() as usize;
                        let before = obs_before(&steps, n - 1, &init);
                        let src_item = &before[s]["reads"][i];
                        let nd = fin[d]["n"].as_u64().unwrap_or(1) as usize;
                        let new_item = &fin[d]["reads"][nd - 1];
                        if new_item != src_item {
                            v.fail("copied-item-differs", json!({"rep": last["rep"], "source": src_item, "copy": new_item}));
                        }
                    }
                }
            } else {
                let want = &edge["res"]["v"];
                match &steps[n - 1].result {
                    Err(m) => {
                        if want.get("panic").is_none() {
                            v.fail("unexpected-panic", json!({"op": last, "msg": m, "expected": want}));
                        }
                    }
                    Ok(r) => {
                        if want.get("panic").is_some() {
                            v.fail("no-panic-out-of-bounds", json!({"op": last, "returned": r["v"]}));
                        } else if &r["v"] != want {
                            v.fail("wrong-answer", json!({"op": last, "expected": want, "observed": r["v"]}));
                        }
                    }
                }
            }
        }
        // ------------------------------------------------------------------ C18 heap_size
        "C18" => {
            if any_panic(&steps).is_some() || fin[0]["used"].is_null() {
                return Verdict::skip();
            }
            for s in 0..nslots {
                if fin[s]["pairs_ok"] != json!(true) {
                    v.fail("used-exceeds-capacity", fin[s].clone());
                }
                if let (Some(u), Some(lb)) = (fin[s]["used"].as_i64(), exp[s]["lb"].as_i64()) {
                    if u < lb {
                        v.fail("used-below-stored", json!({"slot": s + 1, "used": u, "lower_bound": lb, "reads": exp[s]["reads"]}));
                    }
                }
            }
            if let Some(t) = target_slot(last) {
                let before = &obs_before(&steps, n - 1, &init)[t];
                match opname(last) {
                    "push" | "push_from" => {
                        if fin[t]["used"].as_i64() < before["used"].as_i64() {
                            v.fail("used-decreased-on-push", json!({"before": before["used"], "after": fin[t]["used"]}));
                        }
                        // every branch the push stored into contributes: the reported bytes grow by at least what
                        // the push added to the lower bound (payload bytes and index entries, after deduplication)
                        if let (Some(a), Some(b), Some(dlb)) = (fin[t]["used"].as_i64(), before["used"].as_i64(), edge["res"]["dlb"].as_i64()) {
                            if steps[n - 1].result.is_ok() && a - b < dlb {
                                v.fail("push-not-fully-accounted", json!({"before": b, "after": a, "lower_bound_grew_by": dlb, "op": last}));
                            }
                        }
                    }
                    "clear" => {
                        if let (Some(u), Some(b)) = (fin[t]["used"].as_i64(), exp[t]["used"].as_i64()) {
                            if u > b {
                                v.fail("payload-accounted-after-clear", json!({"used": u, "bookkeeping": b}));
                            }
                        }
                        if let (Some(ca), Some(cb)) = (fin[t]["caps"].as_array(), before["caps"].as_array()) {
                            let tot = |a: &Vec<Value>| a.iter().map(|x| x.as_u64().unwrap_or(0)).sum::<u64>();
                            // pairwise where the callbacks line up, as a total otherwise (their number is not part of the contract)
                            if (ca.len() == cb.len() && ca.iter().zip(cb).any(|(a, b)| a.as_u64() < b.as_u64())) || tot(ca) < tot(cb) {
                                v.fail("capacity-shrank-on-clear", json!({"before": cb, "after": ca}));
                            }
                        }
                    }
                    _ => {}
                }
            }
        }
        // ------------------------------------------------------------------ C20 input forms
        "C20" => {
            if !path.iter().any(|o| (opname(o) == "push" && o["f"] != json!(0)) || opname(o) == "push_from") {
                return Verdict::skip();
            }
            if any_panic(&steps).is_some() {
                // a panic is C01's finding unless only the non-canonical form panics (checked below)
            }
            let mut twin_path = path.clone();
            for (j, op) in twin_path.iter_mut().enumerate() {
                match opname(op) {
                    "push" => op["f"] = json!(0),
                    "push_from" => {
                        let s = op["s"].as_u64().unwrap() as usize - 1;
                        let i = op["i"].as_u64().unwrap() as usize;
                        let val = obs_before(&steps, j, &init)[s]["reads"][i].clone();
                        if val.is_null() || has_marker(&val, "PANIC") || has_marker(&val, "INCONSISTENT") {
                            return Verdict::skip();
                        }
                        *op = json!({"op": "push", "s": op["d"], "f": 0, "v": val});
                    }
                    _ => {}
                }
            }
            let (w2, steps2) = run(subj, nslots, &twin_path);
            let pa = steps.iter().position(|s| s.result.is_err());
            let pb = steps2.iter().position(|s| s.result.is_err());
            if pa != pb {
                v.fail("form-changes-panic", json!({"mixed_forms": pa, "canonical": pb}));
                return v;
            }
            if pa.is_some() {
                return Verdict::skip();
            }
            let o2 = w2.observe();
            for s in 0..nslots {
                if fin[s]["idx"] != o2[s]["idx"] {
                    v.fail("form-changes-index", json!({"slot": s + 1, "mixed": fin[s]["idx"], "canonical": o2[s]["idx"], "path": path}));
                } else if fin[s]["reads"] != o2[s]["reads"] {
                    v.fail("form-changes-read", json!({"slot": s + 1, "mixed": fin[s]["reads"], "canonical": o2[s]["reads"]}));
                } else if fin[s]["used"] != o2[s]["used"] {
                    v.fail("form-changes-bytes", json!({"slot": s + 1, "mixed": fin[s]["used"], "canonical": o2[s]["used"]}));
                }
            }
        }
        p => {
            eprintln!("TOOL-ERROR: region replay does not know property {p}");
            std::process::exit(2)
        }
    }
    v
}

pub fn replay_edge(edge: &Value, prop: &str, rep: &mut Report) {
    let subj = edge["subj"].as_str().unwrap_or("?").to_string();
    let v = judge(edge, prop);
    rep.case(&subj, v.judged);
    rep.sample(edge);
    if !v.why.is_empty() {
        rep.violation(json!({
            "sig": format!("{}:{}", subj, v.why[0]),
            "why": v.why.join(","),
            "subj": subj,
            "path": diversify_forms(&subj, edge),
            "expected": {"res": edge["res"], "obs": edge["obs"]},
            "detail": v.detail,
        }));
    }
}

pub fn cmd_replay(file: &str, prop: &str, out: &str) {
    quiet_panics();
    let mut rep = Report::new();
    let n = for_each_edge(file, |e| replay_edge(&e, prop, &mut rep)).expect("read edges");
    rep.extra.insert("edges".into(), json!(n));
    rep.write(out, profile_name());
}
