//! FlatStack subjects and the replay of FlatStackMC edges (C03 and the FlatStack parts of
//! C08, C09, C10, C16, C18, C19).
use crate::catalogue::{Cip, IList, IcKind, Shaped};
use crate::util::*;
use crate::val::*;
use flatcontainer::impls::deduplicate::CollapseSequence;
use flatcontainer::impls::index::{IndexContainer, IndexOptimized};
use flatcontainer::impls::tuple::TupleABRegion;
use flatcontainer::{
    ColumnsRegion, FlatStack, MirrorRegion, OptionRegion, OwnedRegion, Push, Region, ResultRegion, SliceRegion,
    StringRegion,
};
use serde::de::DeserializeOwned;
use serde::Serialize;
use serde_json::{json, Value};
use std::any::Any;

pub trait StackT: Any {
    fn as_any(&self) -> &dyn Any;
    fn fresh(&self) -> Box<dyn StackT>;
    fn copy(&mut self, v: &Value);
    fn extend(&mut self, vs: &[Value], exact_hint: bool);
    /// copy / extend with the allocator calls of the stack's own operation (the shadow region and the
    /// decoding of the JSON value are outside the measured section)
    fn copy_measured(&mut self, v: &Value) -> u64;
    /// `FlatStack::capacity()` - offered by stacks with the default `Vec` index storage only
    fn index_capacity(&self) -> Option<usize>;
    fn extend_measured(&mut self, vs: &[Value]) -> u64;
    fn from_iter(&self, vs: &[Value]) -> Box<dyn StackT>;
    fn with_capacity(&self, n: usize) -> Box<dyn StackT>;
    fn merge_capacity(&self, srcs: &[&dyn StackT]) -> Box<dyn StackT>;
    fn clear(&mut self);
    fn reserve(&mut self, n: usize);
    fn reserve_regions_from(&mut self, src: &dyn StackT);
    /// `FlatStack::reserve_items` with the given values announced (stacks whose region implements `ReserveItems`)
    fn reserve_items(&mut self, vs: &[Value]);
    fn dup(&self) -> Box<dyn StackT>;
    fn dup_from(&mut self, src: &dyn StackT);
    fn serde_copy(&self) -> Result<Box<dyn StackT>, String>;
    fn len(&self) -> usize;
    fn is_empty(&self) -> bool;
    fn get(&self, i: usize) -> Value;
    fn iter_all(&self) -> Vec<Value>;
    /// (size_hint trail valid at every position, cloned iterator yields the same remainder)
    fn iter_laws(&self) -> Result<(), String>;
    fn heap(&self) -> Vec<(usize, usize)>;
    fn region_heap_used(&self) -> usize;
    fn region_heap_caps(&self) -> usize;
}

pub struct StackSlot<R: Region, S: IndexContainer<R::Index>> {
    st: FlatStack<R, S>,
    /// a bare region taken through the same region-level operations: its heap report is the
    /// region's share of the stack's report, whatever order the callbacks come in
    shadow: R,
    exact: bool,
    /// `FlatStack::reserve_items` over owned values, where the region offers `ReserveItems` (monomorphic pointer:
    /// the bound cannot be stated generically, CollapseSequence and ColumnsRegion do not implement it)
    ri: Option<ReserveFn<R, S>>,
}

type ReserveFn<R, S> = fn(&mut FlatStack<R, S>, &mut R, &[<R as Region>::Owned]);

impl<R, S> StackSlot<R, S>
where
    R: Region + Clone + Serialize + DeserializeOwned + 'static,
    S: IndexContainer<R::Index> + Clone + Serialize + DeserializeOwned + 'static,
    for<'a> R: Push<&'a <R as Region>::Owned>,
    R::Owned: Val,
    for<'a> R::ReadItem<'a>: Render,
{
    fn other<'a>(&self, s: &'a dyn StackT) -> &'a StackSlot<R, S> {
        s.as_any().downcast_ref::<StackSlot<R, S>>().expect("same stack type")
    }
    fn wrap(&self, st: FlatStack<R, S>, shadow: R) -> Box<dyn StackT> {
        Box::new(StackSlot { st, shadow, exact: self.exact, ri: self.ri })
    }
}

impl<R, S> StackT for StackSlot<R, S>
where
    R: Region + Clone + Serialize + DeserializeOwned + 'static,
    S: IndexContainer<R::Index> + Clone + Serialize + DeserializeOwned + 'static,
    for<'a> R: Push<&'a <R as Region>::Owned>,
    R::Owned: Val,
    for<'a> R::ReadItem<'a>: Render,
{
    fn as_any(&self) -> &dyn Any {
        self
    }
    fn fresh(&self) -> Box<dyn StackT> {
        self.wrap(FlatStack::default(), R::default())
    }
    fn copy(&mut self, v: &Value) {
        let o = R::Owned::from_json(v);
        self.st.copy(&o);
        let _ = self.shadow.push(&o);
    }
    fn extend(&mut self, vs: &[Value], exact_hint: bool) {
        let os: Vec<R::Owned> = vs.iter().map(R::Owned::from_json).collect();
        if exact_hint {
            self.st.extend(os.iter());
        } else {
            // an iterator whose size_hint has lower bound 0: extend must still absorb every item
            self.st.extend(os.iter().filter(|_| true));
        }
        for o in &os {
            let _ = self.shadow.push(o);
        }
    }
    fn index_capacity(&self) -> Option<usize> {
        (&self.st as &dyn Any).downcast_ref::<FlatStack<R, Vec<R::Index>>>().map(|fs| fs.capacity())
    }
    fn copy_measured(&mut self, v: &Value) -> u64 {
        let o = R::Owned::from_json(v);
        let a0 = crate::alloc::allocs();
        self.st.copy(&o);
        let n = crate::alloc::allocs() - a0;
        let _ = self.shadow.push(&o);
        n
    }
    fn extend_measured(&mut self, vs: &[Value]) -> u64 {
        let os: Vec<R::Owned> = vs.iter().map(R::Owned::from_json).collect();
        let a0 = crate::alloc::allocs();
        self.st.extend(os.iter());
        let n = crate::alloc::allocs() - a0;
        for o in &os {
            let _ = self.shadow.push(o);
        }
        n
    }
    fn from_iter(&self, vs: &[Value]) -> Box<dyn StackT> {
        let os: Vec<R::Owned> = vs.iter().map(R::Owned::from_json).collect();
        let mut shadow = R::default();
        for o in &os {
            let _ = shadow.push(o);
        }
        self.wrap(os.iter().collect::<FlatStack<R, S>>(), shadow)
    }
    fn with_capacity(&self, n: usize) -> Box<dyn StackT> {
        self.wrap(FlatStack::with_capacity(n), R::default())
    }
    fn merge_capacity(&self, srcs: &[&dyn StackT]) -> Box<dyn StackT> {
        let stacks: Vec<&FlatStack<R, S>> = srcs.iter().map(|s| &self.other(*s).st).collect();
        let shadows: Vec<&R> = srcs.iter().map(|s| &self.other(*s).shadow).collect();
        self.wrap(
            FlatStack::<R, S>::merge_capacity(stacks.as_slice().iter().map(|s| *s)),
            R::merge_regions(shadows.as_slice().iter().map(|s| *s)),
        )
    }
    fn clear(&mut self) {
        self.st.clear();
        self.shadow.clear();
    }
    fn reserve(&mut self, n: usize) {
        self.st.reserve(n)
    }
    fn reserve_regions_from(&mut self, src: &dyn StackT) {
        // FlatStack exposes reserve_regions over regions; a stack's region is private, so the
        // announcement goes through a stack rebuilt as a plain region
        let src = self.other(src);
        let mut r = R::default();
        for item in src.st.iter() {
            let o = flatcontainer::IntoOwned::into_owned(item);
            let _ = r.push(&o);
        }
        self.st.reserve_regions(std::iter::once(&r));
        self.shadow.reserve_regions(std::iter::once(&r));
    }
    fn reserve_items(&mut self, vs: &[Value]) {
        let os: Vec<R::Owned> = vs.iter().map(R::Owned::from_json).collect();
        match self.ri {
            Some(f) => f(&mut self.st, &mut self.shadow, &os),
            None => {
                eprintln!("TOOL-ERROR: reserve_items on a stack whose region has no ReserveItems");
                std::process::exit(2)
            }
        }
    }
    fn dup(&self) -> Box<dyn StackT> {
        self.wrap(self.st.clone(), self.shadow.clone())
    }
    fn dup_from(&mut self, src: &dyn StackT) {
        let src = self.other(src);
        self.st.clone_from(&src.st);
        self.shadow.clone_from(&src.shadow);
    }
    fn serde_copy(&self) -> Result<Box<dyn StackT>, String> {
        let s = serde_json::to_string(&self.st).map_err(|e| e.to_string())?;
        let st: FlatStack<R, S> = serde_json::from_str(&s).map_err(|e| e.to_string())?;
        let sh = serde_json::to_string(&self.shadow).map_err(|e| e.to_string())?;
        let shadow: R = serde_json::from_str(&sh).map_err(|e| e.to_string())?;
        Ok(self.wrap(st, shadow))
    }
    fn len(&self) -> usize {
        self.st.len()
    }
    fn is_empty(&self) -> bool {
        self.st.is_empty()
    }
    fn get(&self, i: usize) -> Value {
        self.st.get(i).render()
    }
    fn iter_all(&self) -> Vec<Value> {
        self.st.iter().map(|x| x.render()).collect()
    }
    fn iter_laws(&self) -> Result<(), String> {
        let n = self.st.len();
        let mut it = self.st.iter();
        let mut seen = 0usize;
        loop {
            let (lo, hi) = it.size_hint();
            let rem = n - seen;
            if lo > rem || hi.map(|h| h < rem).unwrap_or(false) {
                return Err(format!("size_hint ({lo},{hi:?}) invalid with {rem} items remaining"));
            }
            if self.exact && (lo != rem || hi != Some(rem)) {
                return Err(format!("size_hint ({lo},{hi:?}) not exact with {rem} remaining (Vec container)"));
            }
            if seen == n / 2 {
                let a: Vec<Value> = it.clone().map(|x| x.render()).collect();
                let b: Vec<Value> = (seen..n).map(|i| self.st.get(i).render()).collect();
                if a != b {
                    return Err(format!("cloned iterator at {seen} yields {:?}, expected {:?}", a, b));
                }
            }
            match it.next() {
                Some(_) => seen += 1,
                None => break,
            }
            if seen > n + 2 {
                return Err("iterator yields more items than len".into());
            }
        }
        if seen != n {
            return Err(format!("iterator yielded {seen} items, len is {n}"));
        }
        // positional jumps: nth(p) yields the p-th copy and the iterator then continues behind it; skip and
        // step_by agree with get; a jump beyond the end exhausts the iterator
        let all: Vec<Value> = (0..n).map(|i| self.st.get(i).render()).collect();
        for p in 0..n.min(12) {
            let mut it = self.st.iter();
            let at = it.nth(p).map(|x| x.render());
            if at.as_ref() != Some(&all[p]) {
                return Err(format!("iter().nth({p}) yields {:?}, expected {:?}", at, all[p]));
            }
            let rest: Vec<Value> = it.map(|x| x.render()).collect();
            if rest != all[p + 1..] {
                return Err(format!("after nth({p}) the iterator continues with {:?}, expected {:?}", rest, &all[p + 1..]));
            }
            // a second jump from the middle
            if p + 2 < n {
                let mut it = self.st.iter();
                it.next();
                let at = it.nth(p).map(|x| x.render());
                let rest: Vec<Value> = it.map(|x| x.render()).collect();
                if at.as_ref() != Some(&all[p + 1]) || rest != all[p + 2..] {
                    return Err(format!("next(); nth({p}) yields {:?} then {:?}", at, rest));
                }
            }
            let sk: Vec<Value> = self.st.iter().skip(p).map(|x| x.render()).collect();
            if sk != all[p..] {
                return Err(format!("iter().skip({p}) yields {:?}", sk));
            }
        }
        if n > 0 {
            for step in [2usize, 3] {
                let got: Vec<Value> = self.st.iter().step_by(step).map(|x| x.render()).collect();
                let want: Vec<Value> = (0..n).step_by(step).map(|i| all[i].clone()).collect();
                if got != want {
                    return Err(format!("iter().step_by({step}) yields {:?}, expected {:?}", got, want));
                }
            }
            if self.st.iter().last().map(|x| x.render()).as_ref() != all.last() {
                return Err("iter().last() differs from get(len-1)".into());
            }
        }
        if self.st.iter().nth(n).is_some() {
            return Err("iter().nth(len) yields an item".into());
        }
        if self.st.iter().count() != n {
            return Err("iter().count() differs from len".into());
        }
        if it.next().is_some() {
            return Err("iterator resumed after None".into());
        }
        Ok(())
    }
    fn heap(&self) -> Vec<(usize, usize)> {
        let mut out = vec![];
        self.st.heap_size(|u, c| out.push((u, c)));
        out
    }
    fn region_heap_used(&self) -> usize {
        let mut used = 0;
        self.shadow.heap_size(|u, _| used += u);
        used
    }
    fn region_heap_caps(&self) -> usize {
        let mut caps = 0;
        self.shadow.heap_size(|_, c| caps += c);
        caps
    }
}

pub struct StackSubject {
    pub name: &'static str,
    pub shape: Value,
    pub ic: &'static str,
    pub isz: usize,
    pub dense: bool,
    pub ri: bool,
    pub make: Box<dyn Fn() -> Box<dyn StackT>>,
}

fn add<R, S>(out: &mut Vec<StackSubject>, name: &'static str, ri: Option<ReserveFn<R, S>>)
where
    R: Region + Shaped + Clone + Serialize + DeserializeOwned + 'static,
    S: IndexContainer<R::Index> + IcKind + Clone + Serialize + DeserializeOwned + 'static,
    for<'a> R: Push<&'a <R as Region>::Owned>,
    R::Owned: Val,
    for<'a> R::ReadItem<'a>: Render,
{
    let shape = R::shape();
    let dense = matches!(shape["k"].as_str(), Some("cip") | Some("columns"));
    out.push(StackSubject {
        name,
        shape,
        ic: S::KIND,
        isz: std::mem::size_of::<R::Index>(),
        dense,
        ri: ri.is_some(),
        make: Box::new(move || Box::new(StackSlot::<R, S> { st: FlatStack::default(), shadow: R::default(), exact: S::KIND == "vec", ri })),
    });
}

pub fn stack_subjects() -> Vec<StackSubject> {
    macro_rules! ri {
        () => {
            Some(|st, shadow, os| {
                st.reserve_items(os.iter());
                flatcontainer::ReserveItems::reserve_items(shadow, os.iter());
            })
        };
    }
    let mut out = vec![];
    add::<StringRegion, Vec<(usize, usize)>>(&mut out, "fs_string", ri!());
    add::<MirrorRegion<u64>, Vec<u64>>(&mut out, "fs_mirror_u64", ri!());
    add::<OwnedRegion<u8>, Vec<(usize, usize)>>(&mut out, "fs_owned_u8", ri!());
    add::<SliceRegion<StringRegion>, Vec<(usize, usize)>>(&mut out, "fs_slice_str", ri!());
    add::<OptionRegion<ResultRegion<StringRegion, MirrorRegion<u8>>>, Vec<Option<Result<(usize, usize), u8>>>>(&mut out, "fs_opt_res", ri!());
    add::<TupleABRegion<MirrorRegion<u64>, StringRegion>, Vec<(u64, (usize, usize))>>(&mut out, "fs_tuple", ri!());
    add::<CollapseSequence<StringRegion>, Vec<(usize, usize)>>(&mut out, "fs_collapse_str", None);
    add::<Cip<StringRegion>, Vec<usize>>(&mut out, "fs_cip_str_vec", ri!());
    add::<Cip<StringRegion>, IndexOptimized>(&mut out, "fs_cip_str_opt", ri!());
    add::<Cip<StringRegion>, IList>(&mut out, "fs_cip_str_list", ri!());
    add::<CollapseSequence<Cip<StringRegion>>, IndexOptimized>(&mut out, "fs_collapse_cip_str_opt", None);
    add::<ColumnsRegion<StringRegion>, Vec<usize>>(&mut out, "fs_cols_str_vec", None);
    add::<ColumnsRegion<StringRegion>, IndexOptimized>(&mut out, "fs_cols_str_opt", None);
    add::<ColumnsRegion<MirrorRegion<u8>>, IList>(&mut out, "fs_cols_u8_list", None);
    add::<Vec<u32>, IndexOptimized>(&mut out, "fs_vec_u32_opt", ri!());
    add::<MirrorRegion<usize>, IndexOptimized>(&mut out, "fs_mirror_usize_opt", ri!());
    add::<MirrorRegion<usize>, IList>(&mut out, "fs_mirror_usize_list", ri!());
    add::<MirrorRegion<usize>, Vec<usize>>(&mut out, "fs_mirror_usize_vec", ri!());
    out
}

pub fn stacks_json() -> Value {
    Value::Array(
        stack_subjects().iter().map(|s| json!({"name": s.name, "shape": s.shape, "ic": s.ic, "isz": s.isz, "dense": s.dense, "ri": s.ri})).collect(),
    )
}

thread_local! {
    static STACKS: Vec<StackSubject> = stack_subjects();
}

pub fn make(name: &str) -> Box<dyn StackT> {
    STACKS.with(|v| match v.iter().find(|s| s.name == name) {
        Some(s) => (s.make)(),
        None => {
            eprintln!("TOOL-ERROR: stack subject {name} unknown");
            std::process::exit(2)
        }
    })
}

fn apply(s: &mut Box<dyn StackT>, op: &Value) -> Result<(), String> {
    let name = op["op"].as_str().unwrap_or("?").to_string();
    let vs: Vec<Value> = op["vs"].as_array().cloned().unwrap_or_default();
    guarded(|| match name.as_str() {
        "copy" => s.copy(&op["v"]),
        "extend" => s.extend(&vs, op["hint"] != json!("none")),
        "from_iter" => *s = s.from_iter(&vs),
        "with_capacity" => *s = s.with_capacity(op["n"].as_u64().unwrap_or(0) as usize),
        "merge_capacity" => {
            let m = s.merge_capacity(&[&**s, &**s]);
            *s = m;
        }
        "clear" => s.clear(),
        "fresh" => *s = s.fresh(),
        "reserve" => s.reserve(op["n"].as_u64().unwrap_or(0) as usize),
        "reserve_items" => s.reserve_items(&vs),
        "reserve_regions" => {
            let c = s.dup();
            s.reserve_regions_from(&*c)
        }
        "clone" => *s = s.dup(),
        "clone_from" => {
            let mut t = s.fresh();
            // a destination with unrelated prior contents
            let items = s.iter_all();
            if let Some(first) = items.first() {
                t.copy(first);
                t.copy(first);
                t.copy(first);
            }
            t.dup_from(&**s);
            *s = t;
        }
        "serde" => match s.serde_copy() {
            Ok(c) => *s = c,
            Err(e) => panic!("serde error: {e}"),
        },
        o => {
            eprintln!("TOOL-ERROR: unknown stack op {o}");
            std::process::exit(2)
        }
    })
}

fn observe(s: &dyn StackT) -> Value {
    let n = s.len();
    let items: Vec<Value> = (0..n)
        .map(|i| match guarded(|| s.get(i)) {
            Ok(v) => v,
            Err(m) => json!({"PANIC": m}),
        })
        .collect();
    let oob: Vec<bool> = (n..n + 2).map(|i| guarded(|| s.get(i)).is_err()).collect();
    let iter = guarded(|| s.iter_all()).map(Value::Array).unwrap_or_else(|m| json!({"PANIC": m}));
    let laws = match guarded(|| s.iter_laws()) {
        Ok(Ok(())) => Value::Null,
        Ok(Err(e)) => json!(e),
        Err(m) => json!(format!("panic: {m}")),
    };
    let heap = s.heap();
    json!({"len": n, "is_empty": s.is_empty(), "items": items, "oob_panics": oob, "iter": iter, "iter_laws": laws,
           "used": heap.iter().map(|p| p.0).sum::<usize>(), "caps": heap.iter().map(|p| p.1).collect::<Vec<_>>(),
           "pairs_ok": heap.iter().all(|(u, c)| u <= c)})
}

fn run(subj: &str, path: &[Value]) -> (Box<dyn StackT>, Option<(usize, String)>) {
    let mut s = make(subj);
    for (i, op) in path.iter().enumerate() {
        if let Err(m) = apply(&mut s, op) {
            return (s, Some((i, m)));
        }
    }
    (s, None)
}

fn opname(op: &Value) -> &str {
    op["op"].as_str().unwrap_or("")
}

/// TLC continues only one of the paths into a state, so an edge that ends in a clear or a copy may be the only
/// one with this prior history and has no continuation of its own: every value copied anywhere before position
/// `k` is copied again (the model says the cleared stack is the empty stack and a copy is its source).
fn synthetic_copies(path: &[Value], k: usize) -> Vec<Value> {
    let mut vals: Vec<Value> = vec![];
    for op in &path[..k] {
        let vs: Vec<Value> = match opname(op) {
            "copy" => vec![op["v"].clone()],
            "extend" | "from_iter" => op["vs"].as_array().cloned().unwrap_or_default(),
            _ => vec![],
        };
        for v in vs {
            if !vals.contains(&v) {
                vals.push(v);
            }
        }
    }
    vals.into_iter().map(|v| json!({"op": "copy", "v": v})).collect()
}

pub fn replay_edge(edge: &Value, prop: &str, rep: &mut Report) {
    let subj = edge["subj"].as_str().unwrap();
    let path = edge["path"].as_array().unwrap();
    let exp = &edge["obs"];
    let (s, panicked) = run(subj, path);
    let mut why: Vec<String> = vec![];
    let mut detail = Value::Null;
    let mut judged = true;
    let obs = if panicked.is_none() { observe(&*s) } else { Value::Null };
    let content = |o: &Value| json!([o["len"], o["items"], o["iter"]]);
    match prop {
        "C03" => {
            if let Some((i, m)) = &panicked {
                why.push("panic".into());
                detail = json!({"step": i, "msg": m});
            } else {
                if obs["len"] != exp["len"] {
                    why.push("len".into())
                }
                if obs["is_empty"] != json!(exp["len"] == json!(0)) {
                    why.push("is_empty".into())
                }
                if obs["items"] != exp["items"] {
                    why.push("get".into())
                }
                if obs["iter"] != exp["items"] {
                    why.push("iter".into())
                }
                if obs["oob_panics"] != json!([true, true]) {
                    why.push("get-out-of-bounds-did-not-panic".into())
                }
                if !obs["iter_laws"].is_null() {
                    why.push("iterator-laws".into())
                }
                if !why.is_empty() {
                    detail = json!({"expected": exp, "observed": obs});
                }
            }
        }
        "C13" => {
            // FlatStack::get: own element for i < len, fail-stop beyond
            if panicked.is_some() {
                judged = false;
            } else {
                if obs["items"] != exp["items"] {
                    why.push("get".into())
                }
                if obs["oob_panics"] != json!([true, true]) {
                    why.push("get-out-of-bounds-did-not-panic".into())
                }
                if !why.is_empty() {
                    detail = json!({"expected": exp, "observed": obs});
                }
            }
        }
        "C19" => {
            // the optimised index container over a dense-index region spends no heap on indices
            if panicked.is_some() || edge["dense_opt"] != json!(true) {
                judged = false;
            } else {
                let region_used = s.region_heap_used() as i64;
                let total = obs["used"].as_i64().unwrap_or(0);
                if total - region_used != 0 {
                    why.push("index-bytes-not-zero".into());
                    detail = json!({"stack_used": total, "region_used": region_used, "spec_index_bytes": exp["icused"]});
                }
                // "occupies no heap at all": nothing may be allocated for the indices either. Capacity that
                // a clear() retained is legitimate, so only histories without a reset are judged.
                // (merge_capacity over stacks whose indices are dense needs no index heap to absorb them: it is judged;
                //  with_capacity(n) is an explicit request for index capacity and is left out)
                let reset = path.iter().any(|o| matches!(opname(o), "clear" | "with_capacity" | "clone_from"));
                if !reset {
                    let caps: i64 = obs["caps"].as_array().map(|a| a.iter().map(|c| c.as_i64().unwrap_or(0)).sum()).unwrap_or(0);
                    let region_caps = s.region_heap_caps() as i64;
                    if caps - region_caps != 0 {
                        why.push("index-capacity-not-zero".into());
                        detail = json!({"stack_capacity": caps, "region_capacity": region_caps});
                    }
                }
            }
        }
        "C18" => {
            if panicked.is_some() {
                judged = false;
            } else {
                if obs["pairs_ok"] != json!(true) {
                    why.push("used-exceeds-capacity".into())
                }
                // the stack's own index container contributes: total >= region share + spec's index bytes
                let region_used = s.region_heap_used() as i64;
                let total = obs["used"].as_i64().unwrap_or(0);
                let want = exp["icused"].as_i64().unwrap_or(0);
                if total - region_used < want {
                    why.push("index-container-not-accounted".into());
                    detail = json!({"stack_used": total, "region_used": region_used, "spec_index_bytes": want});
                }
                // clear keeps every allocation: no reported capacity may shrink (compared as a total, because the
                // number of callbacks is not part of the contract)
                if path.last().map(|o| opname(o) == "clear").unwrap_or(false) {
                    let (before, p0) = run(subj, &path[..path.len() - 1]);
                    if p0.is_none() {
                        let cb: usize = before.heap().iter().map(|p| p.1).sum();
                        let ca: i64 = obs["caps"].as_array().map(|a| a.iter().map(|c| c.as_i64().unwrap_or(0)).sum()).unwrap_or(0);
                        if ca < cb as i64 {
                            why.push("capacity-shrank-on-clear".into());
                            detail = json!({"capacity_before": cb, "capacity_after": ca});
                        }
                    }
                }
            }
        }
        "C08" => {
            let k = path.iter().rposition(|o| opname(o) == "clear");
            match (k, &panicked) {
                (Some(k), None) => {
                    let mut twin = path.clone();
                    twin[k] = json!({"op": "fresh"});
                    let mut obs = obs.clone();
                    if k + 1 == path.len() {
                        let extra = synthetic_copies(path, k);
                        let mut ext = path.clone();
                        ext.extend(extra.iter().cloned());
                        twin.extend(extra);
                        let (s2, p1) = run(subj, &ext);
                        obs = if p1.is_none() { observe(&*s2) } else { json!({"PANIC": p1.map(|p| p.1)}) };
                    }
                    let (t, p2) = run(subj, &twin);
                    if p2.is_some() {
                        judged = false
                    } else {
                        let o2 = observe(&*t);
                        if content(&obs) != content(&o2) {
                            why.push("not-fresh-after-clear".into());
                            detail = json!({"after_clear": obs, "fresh": o2});
                        }
                    }
                }
                _ => judged = false,
            }
        }
        "C09" | "C16" => {
            let ops: &[&str] = if prop == "C09" { &["clone", "clone_from"] } else { &["serde"] };
            let k = path.iter().rposition(|o| ops.contains(&opname(o)));
            match k {
                Some(k) => {
                    if let Some((i, m)) = &panicked {
                        if *i == k {
                            why.push("copy-failed".into());
                            detail = json!({"msg": m});
                        } else {
                            judged = false;
                        }
                    } else {
                        // original = same path without the copy op
                        let mut twin: Vec<Value> = path.iter().enumerate().filter(|(i, _)| *i != k).map(|(_, o)| o.clone()).collect();
                        let mut obs = obs.clone();
                        if k + 1 == path.len() {
                            let extra = synthetic_copies(path, k);
                            let mut ext = path.clone();
                            ext.extend(extra.iter().cloned());
                            twin.extend(extra);
                            let (s2, p1) = run(subj, &ext);
                            obs = if p1.is_none() { observe(&*s2) } else { json!({"PANIC": p1.map(|p| p.1)}) };
                        }
                        let (t, p2) = run(subj, &twin);
                        if p2.is_some() {
                            judged = false
                        } else {
                            let o2 = observe(&*t);
                            if content(&obs) != content(&o2) {
                                why.push("copy-diverges".into());
                                detail = json!({"copy": obs, "original": o2});
                            }
                        }
                    }
                }
                None => judged = false,
            }
        }
        "C10" => {
            let pres = ["reserve", "reserve_items", "reserve_regions"];
            let has = path.iter().any(|o| pres.contains(&opname(o)) || matches!(opname(o), "with_capacity" | "merge_capacity"));
            if !has {
                judged = false;
            } else if let Some((i, m)) = &panicked {
                if pres.contains(&opname(&path[*i])) || matches!(opname(&path[*i]), "with_capacity" | "merge_capacity") {
                    why.push("presizing-panicked".into());
                    detail = json!({"step": i, "msg": m});
                } else {
                    judged = false;
                }
            } else {
                // twin: no reservations; with_capacity / merge_capacity replaced by a default stack
                let twin: Vec<Value> = path
                    .iter()
                    .filter(|o| !pres.contains(&opname(o)))
                    .map(|o| if matches!(opname(o), "with_capacity" | "merge_capacity") { json!({"op": "fresh"}) } else { o.clone() })
                    .collect();
                let (t, p2) = run(subj, &twin);
                if p2.is_some() {
                    judged = false
                } else {
                    let o2 = observe(&*t);
                    if content(&obs) != content(&o2) {
                        why.push("presizing-visible".into());
                        detail = json!({"presized": obs, "plain": o2});
                    }
                }
            }
        }
        p => {
            eprintln!("TOOL-ERROR: stack-replay does not know property {p}");
            std::process::exit(2)
        }
    }
    rep.case(subj, judged);
    rep.sample(edge);
    if !why.is_empty() {
        rep.violation(json!({"sig": format!("{}:{}", subj, why[0]), "why": why.join(","), "subj": subj, "path": edge["path"],
                             "expected": {"obs": exp, "res": edge["res"]}, "detail": detail}));
    }
}

pub fn cmd_replay(file: &str, prop: &str, out: &str) {
    quiet_panics();
    let mut rep = Report::new();
    let n = for_each_edge(file, |e| replay_edge(&e, prop, &mut rep)).expect("read edges");
    rep.extra.insert("edges".into(), json!(n));
    rep.write(out, profile_name());
}
