//! Scenario interpreter: replays a path of operations (as emitted by RegionsMC / FlatStackMC or
//! produced by the random driver) on real regions, observing everything a caller can see.
use crate::catalogue;
use crate::slot::*;
use crate::util::*;
use serde_json::{json, Value};

pub struct World {
    pub subject: std::rc::Rc<Subject>,
    pub slots: Vec<Box<dyn SlotT>>,
    /// set when a slot was left in an unspecified state by a panic inside a mutating call
    pub poisoned: Vec<bool>,
}

#[derive(Clone, Debug)]
pub struct Step {
    pub result: Result<Value, String>, // Err = panic message
    pub obs: Value,                    // observation of all slots after the step
}

fn slot_of(op: &Value, key: &str) -> usize {
    op[key].as_u64().unwrap_or_else(|| {
        eprintln!("TOOL-ERROR: op without slot field {key}: {op}");
        std::process::exit(2)
    }) as usize
        - 1
}

impl World {
    pub fn new(subject_name: &str, nslots: usize) -> World {
        let subject = catalogue::find(subject_name);
        let slots = (0..nslots).map(|_| (subject.make)()).collect();
        World { subject, slots, poisoned: vec![false; nslots] }
    }

    /// Everything observable about one slot. Reads run under catch_unwind: a panic is data.
    pub fn observe_slot(&self, s: usize) -> Value {
        if self.poisoned[s] {
            return json!({"poisoned": true});
        }
        let sl = &self.slots[s];
        let n = sl.n();
        let idx: Vec<Value> = (0..n).map(|i| sl.idx(i)).collect();
        let reads: Vec<Value> = (0..n)
            .map(|i| match guarded(|| sl.read(i)) {
                Ok(v) => v,
                Err(m) => json!({"PANIC": m}),
            })
            .collect();
        let heap = guarded(|| sl.heap()).unwrap_or(None);
        let (used, cap, pairs_ok) = match &heap {
            Some(h) => (
                json!(h.iter().map(|p| p.0).sum::<usize>()),
                json!(h.iter().map(|p| p.1).collect::<Vec<_>>()),
                h.iter().all(|(u, c)| u <= c),
            ),
            None => (Value::Null, Value::Null, true),
        };
        json!({"n": n, "idx": idx, "reads": reads, "used": used, "caps": cap, "pairs_ok": pairs_ok})
    }

    pub fn observe(&self) -> Value {
        Value::Array((0..self.slots.len()).map(|s| self.observe_slot(s)).collect())
    }

    /// Apply one operation. `Ok(result)`, or `Err(panic message)`.
    pub fn apply(&mut self, op: &Value) -> Result<Value, String> {
        let name = op["op"].as_str().unwrap_or("?").to_string();
        let r = guarded(|| self.apply_inner(&name, op));
        if r.is_err() {
            // a panic inside a mutating call leaves its target in an unspecified state
            if let Some(t) = target_slot(op) {
                self.poisoned[t] = true;
            }
        }
        r
    }

    fn srcs<'a>(&'a self, op: &Value) -> Vec<&'a dyn SlotT> {
        op["srcs"].as_array().map(|a| a.iter().map(|x| &*self.slots[x.as_u64().unwrap() as usize - 1]).collect()).unwrap_or_default()
    }

    fn apply_inner(&mut self, name: &str, op: &Value) -> Value {
        match name {
            "push" => {
                let s = slot_of(op, "s");
                let f = op["f"].as_u64().unwrap_or(0) as usize;
                let idx = self.slots[s].push(f, &op["v"]);
                json!({"idx": idx})
            }
            "push_from" => {
                let (d, s) = (slot_of(op, "d"), slot_of(op, "s"));
                let i = op["i"].as_u64().unwrap() as usize;
                let rep = op["rep"].as_str().unwrap_or("region");
                let idx = if d == s {
                    // a read item borrows its region: go through an independent copy of the source
                    let src = self.slots[s].dup().expect("push_from within one slot needs Clone");
                    self.slots[d].push_from(&*src, i, rep)
                } else {
                    let (a, b) = two(&mut self.slots, d, s);
                    a.push_from(&**b, i, rep)
                };
                match idx {
                    Some(idx) => json!({"idx": idx}),
                    None => json!({"unsupported": true}),
                }
            }
            "clear" => {
                let s = slot_of(op, "s");
                self.slots[s].clear();
                self.poisoned[s] = false;
                json!({"ok": true})
            }
            "fresh" => {
                let s = slot_of(op, "s");
                self.slots[s] = self.slots[s].fresh();
                self.poisoned[s] = false;
                json!({"ok": true})
            }
            "clone" => {
                let (d, s) = (slot_of(op, "d"), slot_of(op, "s"));
                match self.slots[s].dup() {
                    Some(c) => {
                        self.slots[d] = c;
                        self.poisoned[d] = self.poisoned[s];
                        json!({"ok": true})
                    }
                    None => json!({"unsupported": true}),
                }
            }
            "clone_from" => {
                let (d, s) = (slot_of(op, "d"), slot_of(op, "s"));
                let (a, b) = two(&mut self.slots, d, s);
                let ok = a.dup_from(&**b);
                self.poisoned[d] = self.poisoned[s];
                json!({"ok": ok})
            }
            "serde" => {
                let (d, s) = (slot_of(op, "d"), slot_of(op, "s"));
                match self.slots[s].serde_copy() {
                    Some(Ok(c)) => {
                        self.slots[d] = c;
                        self.poisoned[d] = self.poisoned[s];
                        json!({"ok": true})
                    }
                    Some(Err(e)) => json!({"serde_error": e}),
                    None => json!({"unsupported": true}),
                }
            }
            "merge" => {
                let d = slot_of(op, "d");
                let m = {
                    let srcs = self.srcs(op);
                    self.slots[d].merged(&srcs)
                };
                self.slots[d] = m;
                self.poisoned[d] = false;
                json!({"ok": true})
            }
            "reserve_regions" => {
                let s = slot_of(op, "s");
                // sources may include the target: use independent copies
                let copies: Vec<Box<dyn SlotT>> = op["srcs"]
                    .as_array()
                    .map(|a| a.iter().filter_map(|x| self.slots[x.as_u64().unwrap() as usize - 1].dup()).collect())
                    .unwrap_or_default();
                let refs: Vec<&dyn SlotT> = copies.iter().map(|b| &**b).collect();
                let ok = self.slots[s].reserve_regions(&refs);
                json!({"ok": ok})
            }
            "reserve_items" => {
                let s = slot_of(op, "s");
                let f = op["f"].as_u64().unwrap_or(0) as usize;
                let vs: Vec<Value> = op["vs"].as_array().cloned().unwrap_or_default();
                let ok = self.slots[s].reserve_items(f, &vs);
                json!({"ok": ok})
            }
            "get" => {
                let s = slot_of(op, "s");
                let v = self.slots[s].get(op["i"].as_u64().unwrap() as usize, op["pos"].as_u64().unwrap() as usize, op["rep"].as_str().unwrap_or("region"));
                match v {
                    Some(v) => json!({"v": v}),
                    None => json!({"unsupported": true}),
                }
            }
            "clone_onto" => {
                let s = slot_of(op, "s");
                json!({"v": self.slots[s].clone_onto(op["i"].as_u64().unwrap() as usize, &op["t"])})
            }
            "borrow" => {
                let s = slot_of(op, "s");
                json!({"v": self.slots[s].borrow_roundtrip(op["i"].as_u64().unwrap() as usize)})
            }
            "cmp" => {
                let (a, b) = (slot_of(op, "s"), slot_of(op, "s2"));
                let v = self.slots[a].compare(op["i"].as_u64().unwrap() as usize, &*self.slots[b], op["i2"].as_u64().unwrap() as usize, op["rep"].as_str().unwrap_or("region"));
                match v {
                    Some(v) => json!({"v": v}),
                    None => json!({"unsupported": true}),
                }
            }
            o => {
                eprintln!("TOOL-ERROR: unknown op {o}");
                std::process::exit(2)
            }
        }
    }

    /// Replay a whole path, observing after every step; stops at the first panic in a state-changing
    /// op whose target is then unspecified only for that slot (other slots keep going).
    pub fn replay(&mut self, path: &[Value]) -> Vec<Step> {
        let mut out = Vec::with_capacity(path.len());
        for op in path {
            let result = self.apply(op);
            let obs = self.observe();
            out.push(Step { result, obs });
        }
        out
    }
}

fn two<'a>(v: &'a mut [Box<dyn SlotT>], a: usize, b: usize) -> (&'a mut Box<dyn SlotT>, &'a Box<dyn SlotT>) {
    assert!(a != b);
    if a < b {
        let (x, y) = v.split_at_mut(b);
        (&mut x[a], &y[0])
    } else {
        let (x, y) = v.split_at_mut(a);
        (&mut y[0], &x[b])
    }
}

pub fn is_query(op: &Value) -> bool {
    matches!(op["op"].as_str().unwrap_or(""), "get" | "clone_onto" | "borrow" | "cmp")
}

/// the slot an operation writes to (None for queries)
pub fn target_slot(op: &Value) -> Option<usize> {
    match op["op"].as_str().unwrap_or("") {
        "push" | "clear" | "fresh" | "reserve_items" | "reserve_regions" => Some(slot_of(op, "s")),
        "push_from" | "clone" | "clone_from" | "serde" | "merge" => Some(slot_of(op, "d")),
        _ => None,
    }
}
