//! JSON encodings shared with the TLA+ specifications.
//!
//! * `Val`     owned values (what is pushed)            <-> spec values
//! * `Render`  read items, rendered through every accessor they offer, in the SAME encoding
//!             as `Val` so that "reads back the pushed value" is JSON equality
//! * `IdxJson` region indices in canonical structural form
//!
//! Encodings: u8/u16 as JSON numbers; every other scalar as a tagged-free decimal string
//! (TLC integers are 32-bit); f64 as {"bits": hex, "nan": bool}; () as "unit";
//! strings as arrays of bytes; Option as {"t":"none"} / {"t":"some","v":..};
//! Result as {"t":"ok"|"err","v":..}; tuples and sequences as arrays.
use flatcontainer::impls::index::IndexContainer;
use flatcontainer::impls::slice::ReadSlice;
use flatcontainer::impls::columns::ReadColumns;
use flatcontainer::Region;
use serde_json::{json, Value};

pub trait Val: Sized + Clone + 'static {
    fn from_json(v: &Value) -> Self;
    fn to_json(&self) -> Value;
}

/// Scalars usable as elements of OwnedRegion / MirrorRegion / Vec regions.
pub trait Scalar: Val {
    const NAME: &'static str;
}

macro_rules! val_small_int {
    ($($t:ty),*) => {$(
        impl Val for $t {
            fn from_json(v: &Value) -> Self { v.as_u64().expect(concat!("expected ", stringify!($t))) as $t }
            fn to_json(&self) -> Value { json!(*self) }
        }
        impl Scalar for $t { const NAME: &'static str = stringify!($t); }
    )*};
}
val_small_int!(u8, u16);

macro_rules! val_str_int {
    ($($t:ty),*) => {$(
        impl Val for $t {
            fn from_json(v: &Value) -> Self {
                v.as_str().expect(concat!("expected string for ", stringify!($t))).parse::<$t>().expect("parse int")
            }
            fn to_json(&self) -> Value { json!(self.to_string()) }
        }
        impl Scalar for $t { const NAME: &'static str = stringify!($t); }
    )*};
}
val_str_int!(u32, u64, u128, i8, i16, i32, i64, i128, isize);

// usize doubles as an index type: small values travel as JSON numbers (so that the spec's index
// containers can compute with them), large ones as decimal strings
impl Val for usize {
    fn from_json(v: &Value) -> Self {
        match v {
            Value::String(s) => s.parse::<usize>().expect("parse usize"),
            _ => v.as_u64().expect("usize") as usize,
        }
    }
    fn to_json(&self) -> Value {
        if *self <= i32::MAX as usize { json!(*self) } else { json!(self.to_string()) }
    }
}
impl Scalar for usize { const NAME: &'static str = "usize"; }

impl Val for () {
    fn from_json(_: &Value) -> Self {}
    fn to_json(&self) -> Value {
        json!("unit")
    }
}
impl Scalar for () {
    const NAME: &'static str = "unit";
}
impl Val for bool {
    fn from_json(v: &Value) -> Self {
        v.as_str().expect("bool string") == "true"
    }
    fn to_json(&self) -> Value {
        json!(if *self { "true" } else { "false" })
    }
}
impl Scalar for bool {
    const NAME: &'static str = "bool";
}
impl Val for char {
    fn from_json(v: &Value) -> Self {
        let s = v.as_str().expect("char string");
        char::from_u32(s.trim_start_matches("c:").parse::<u32>().unwrap()).unwrap()
    }
    fn to_json(&self) -> Value {
        json!(format!("c:{}", *self as u32))
    }
}
impl Scalar for char {
    const NAME: &'static str = "char";
}
impl Val for f64 {
    fn from_json(v: &Value) -> Self {
        f64::from_bits(u64::from_str_radix(v["bits"].as_str().expect("f64 bits"), 16).unwrap())
    }
    fn to_json(&self) -> Value {
        json!({"bits": format!("{:016x}", self.to_bits()), "nan": self.is_nan()})
    }
}
impl Scalar for f64 {
    const NAME: &'static str = "f64";
}

impl Val for String {
    fn from_json(v: &Value) -> Self {
        let bytes: Vec<u8> = v.as_array().expect("string as byte array").iter().map(|b| b.as_u64().unwrap() as u8).collect();
        String::from_utf8(bytes).expect("spec strings are valid utf-8")
    }
    fn to_json(&self) -> Value {
        Value::Array(self.as_bytes().iter().map(|b| json!(*b)).collect())
    }
}

/// Zero-sized elements: a sequence of n units travels as {"unit_n": "n"} once it is long, so that
/// `vec![(); 1 << 33]` (offsets beyond u32::MAX at no cost) can be pushed and read back.
pub const UNIT_RUN_MIN: usize = 4096;

impl<T: Val> Val for Vec<T> {
    fn from_json(v: &Value) -> Self {
        if let Some(n) = v.get("unit_n").and_then(|n| n.as_str()) {
            assert_eq!(std::mem::size_of::<T>(), 0, "unit_n only for zero-sized elements");
            let n: usize = n.parse().expect("unit_n");
            return vec![T::from_json(&json!("unit")); n];
        }
        v.as_array().expect("array").iter().map(T::from_json).collect()
    }
    fn to_json(&self) -> Value {
        if std::mem::size_of::<T>() == 0 && self.len() >= UNIT_RUN_MIN {
            return json!({"unit_n": self.len().to_string()});
        }
        Value::Array(self.iter().map(T::to_json).collect())
    }
}
impl<T: Val> Val for Option<T> {
    fn from_json(v: &Value) -> Self {
        match v["t"].as_str().expect("option tag") {
            "none" => None,
            _ => Some(T::from_json(&v["v"])),
        }
    }
    fn to_json(&self) -> Value {
        match self {
            None => json!({"t": "none"}),
            Some(x) => json!({"t": "some", "v": x.to_json()}),
        }
    }
}
impl<T: Val, E: Val> Val for Result<T, E> {
    fn from_json(v: &Value) -> Self {
        match v["t"].as_str().expect("result tag") {
            "ok" => Ok(T::from_json(&v["v"])),
            _ => Err(E::from_json(&v["v"])),
        }
    }
    fn to_json(&self) -> Value {
        match self {
            Ok(x) => json!({"t": "ok", "v": x.to_json()}),
            Err(x) => json!({"t": "err", "v": x.to_json()}),
        }
    }
}
impl<A: Val> Val for (A,) {
    fn from_json(v: &Value) -> Self {
        (A::from_json(&v[0]),)
    }
    fn to_json(&self) -> Value {
        json!([self.0.to_json()])
    }
}
impl<A: Val, B: Val> Val for (A, B) {
    fn from_json(v: &Value) -> Self {
        (A::from_json(&v[0]), B::from_json(&v[1]))
    }
    fn to_json(&self) -> Value {
        json!([self.0.to_json(), self.1.to_json()])
    }
}
impl<A: Val, B: Val, C: Val> Val for (A, B, C) {
    fn from_json(v: &Value) -> Self {
        (A::from_json(&v[0]), B::from_json(&v[1]), C::from_json(&v[2]))
    }
    fn to_json(&self) -> Value {
        json!([self.0.to_json(), self.1.to_json(), self.2.to_json()])
    }
}

// ---------------------------------------------------------------------------------------------

/// A rendering that can never equal a spec value; carries the disagreement between accessors.
pub fn inconsistent(what: &str, detail: Value) -> Value {
    json!({"INCONSISTENT": what, "detail": detail})
}

pub trait Render {
    fn render(&self) -> Value;
}

macro_rules! render_scalar {
    ($($t:ty),*) => {$( impl Render for $t { fn render(&self) -> Value { Val::to_json(self) } } )*};
}
render_scalar!(u8, u16, u32, u64, u128, usize, i8, i16, i32, i64, i128, isize, (), bool, char, f64);

impl Render for &str {
    fn render(&self) -> Value {
        let bytes = self.as_bytes();
        let arr = Value::Array(bytes.iter().map(|b| json!(*b)).collect());
        // C04: every &str handed out must be valid UTF-8 (checked on the bytes, not trusted)
        if std::str::from_utf8(bytes).is_err() {
            return json!({"INVALID_UTF8": arr});
        }
        if self.is_empty() != (bytes.len() == 0) || self.len() != bytes.len() {
            return inconsistent("str len", arr);
        }
        arr
    }
}
impl<T: Val> Render for &[T] {
    fn render(&self) -> Value {
        if std::mem::size_of::<T>() == 0 && self.len() >= UNIT_RUN_MIN {
            let it = self.iter().len();
            if it != self.len() || self.is_empty() {
                return inconsistent("slice accessors", json!([self.len(), it]));
            }
            return json!({"unit_n": self.len().to_string()});
        }
        let by_index: Vec<Value> = (0..self.len()).map(|i| self[i].to_json()).collect();
        let by_iter: Vec<Value> = self.iter().map(Val::to_json).collect();
        if by_index != by_iter || self.is_empty() != (self.len() == 0) {
            return inconsistent("slice accessors", json!([by_index, by_iter]));
        }
        Value::Array(by_index)
    }
}
impl<T: Val> Render for &T {
    fn render(&self) -> Value {
        (*self).to_json()
    }
}
impl<T: Render> Render for Option<T> {
    fn render(&self) -> Value {
        match self {
            None => json!({"t": "none"}),
            Some(x) => json!({"t": "some", "v": x.render()}),
        }
    }
}
impl<T: Render, E: Render> Render for Result<T, E> {
    fn render(&self) -> Value {
        match self {
            Ok(x) => json!({"t": "ok", "v": x.render()}),
            Err(x) => json!({"t": "err", "v": x.render()}),
        }
    }
}
impl<A: Render> Render for (A,) {
    fn render(&self) -> Value {
        json!([self.0.render()])
    }
}
impl<A: Render, B: Render> Render for (A, B) {
    fn render(&self) -> Value {
        json!([self.0.render(), self.1.render()])
    }
}
impl<A: Render, B: Render, C: Render> Render for (A, B, C) {
    fn render(&self) -> Value {
        json!([self.0.render(), self.1.render(), self.2.render()])
    }
}

impl<'x, R, O> Render for ReadSlice<'x, R, O>
where
    R: Region,
    O: IndexContainer<R::Index>,
    for<'a> R::ReadItem<'a>: Render,
{
    fn render(&self) -> Value {
        let n = self.len();
        let by_get: Vec<Value> = (0..n).map(|i| self.get(i).render()).collect();
        let by_iter: Vec<Value> = self.iter().map(|x| x.render()).collect();
        let by_into_iter: Vec<Value> = self.into_iter().map(|x| x.render()).collect();
        let mut it = self.iter();
        let mut half: Vec<Value> = vec![];
        for _ in 0..n / 2 {
            if let Some(x) = it.next() {
                half.push(x.render())
            }
        }
        let cl = it.clone();
        half.extend(cl.map(|x| x.render()));
        if by_get != by_iter || by_get != by_into_iter || by_get != half || self.is_empty() != (n == 0) {
            return inconsistent(
                "ReadSlice len/is_empty/get/iter disagree",
                json!({"len": n, "is_empty": self.is_empty(), "get": by_get, "iter": by_iter, "cloned_iter": half}),
            );
        }
        // positional iteration: nth / skip / step_by / last / count see exactly this item, nothing beyond it
        let past_end = self.iter().nth(n).is_some() || self.iter().skip(n).next().is_some() || self.iter().nth(n + 1).is_some();
        let nth_ok = (0..n).all(|k| self.iter().nth(k).map(|x| x.render()) == Some(by_get[k].clone()));
        let stepped: Vec<Value> = self.iter().step_by(2).map(|x| x.render()).collect();
        let stepped_want: Vec<Value> = by_get.iter().step_by(2).cloned().collect();
        let last = self.iter().last().map(|x| x.render());
        if past_end || !nth_ok || stepped != stepped_want || self.iter().count() != n || last != by_get.last().cloned() {
            return inconsistent(
                "ReadSlice positional iteration (nth/skip/step_by/last/count) disagrees with get",
                json!({"len": n, "get": by_get, "past_end": past_end, "nth_ok": nth_ok, "stepped": stepped}),
            );
        }
        Value::Array(by_get)
    }
}

impl<'x, R> Render for ReadColumns<'x, R>
where
    R: Region,
    for<'a> R::ReadItem<'a>: Render,
{
    fn render(&self) -> Value {
        let n = self.len();
        let by_get: Vec<Value> = (0..n).map(|i| self.get(i).render()).collect();
        let it = self.into_iter();
        let hint = it.size_hint();
        let exact = ExactSizeIterator::len(&it);
        let by_iter: Vec<Value> = it.map(|x| x.render()).collect();
        let past_end = self.into_iter().nth(n).is_some() || self.into_iter().skip(n).next().is_some();
        let nth_ok = (0..n).all(|k| self.into_iter().nth(k).map(|x| x.render()) == Some(by_get[k].clone()));
        if past_end || !nth_ok {
            return inconsistent("ReadColumns positional iteration (nth/skip) disagrees with get", json!({"len": n, "get": by_get, "past_end": past_end}));
        }
        if by_get != by_iter || self.is_empty() != (n == 0) || hint.0 > n || hint.1.map(|h| h < n).unwrap_or(false) || exact != n {
            return inconsistent(
                "ReadColumns len/is_empty/get/iter disagree",
                json!({"len": n, "is_empty": self.is_empty(), "get": by_get, "iter": by_iter, "hint": [hint.0, hint.1], "exact": exact}),
            );
        }
        Value::Array(by_get)
    }
}

// ---------------------------------------------------------------------------------------------

pub trait IdxJson: Copy {
    fn idx_json(&self) -> Value;
}
impl IdxJson for usize {
    fn idx_json(&self) -> Value {
        if *self <= i32::MAX as usize {
            json!(*self)
        } else {
            json!(self.to_string())
        }
    }
}
macro_rules! idx_scalar {
    ($($t:ty),*) => {$( impl IdxJson for $t { fn idx_json(&self) -> Value { Val::to_json(self) } } )*};
}
idx_scalar!(u8, u16, u32, u64, u128, i8, i16, i32, i64, i128, isize, (), bool, char, f64);
impl<T: IdxJson> IdxJson for Option<T> {
    fn idx_json(&self) -> Value {
        match self {
            None => json!({"t": "none"}),
            Some(x) => json!({"t": "some", "v": x.idx_json()}),
        }
    }
}
impl<T: IdxJson, E: IdxJson> IdxJson for Result<T, E> {
    fn idx_json(&self) -> Value {
        match self {
            Ok(x) => json!({"t": "ok", "v": x.idx_json()}),
            Err(x) => json!({"t": "err", "v": x.idx_json()}),
        }
    }
}
impl<A: IdxJson> IdxJson for (A,) {
    fn idx_json(&self) -> Value {
        json!([self.0.idx_json()])
    }
}
impl<A: IdxJson, B: IdxJson> IdxJson for (A, B) {
    fn idx_json(&self) -> Value {
        json!([self.0.idx_json(), self.1.idx_json()])
    }
}
impl<A: IdxJson, B: IdxJson, C: IdxJson> IdxJson for (A, B, C) {
    fn idx_json(&self) -> Value {
        json!([self.0.idx_json(), self.1.idx_json(), self.2.idx_json()])
    }
}
