//! Index-container subjects (src/impls/index.rs) and the replay of ICMC edges.
use crate::util::*;
use flatcontainer::impls::index::{IndexContainer, IndexList, IndexOptimized, Stride};
use flatcontainer::impls::storage::Storage;
use serde_json::{json, Value};

type List = IndexList<Vec<u32>, Vec<u64>>;

#[derive(Clone)]
pub enum Subj {
    Vec(Vec<usize>),
    Stride(Stride),
    List(List),
    Opt(IndexOptimized),
}

pub fn word(v: &Value) -> usize {
    let a = v.as_array().expect("word array");
    let mut x: u64 = 0;
    for (i, l) in a.iter().enumerate() {
        x |= (l.as_u64().unwrap()) << (16 * i);
    }
    x as usize
}
pub fn unword(x: usize) -> Value {
    let x = x as u64;
    json!([x & 0xffff, (x >> 16) & 0xffff, (x >> 32) & 0xffff, (x >> 48) & 0xffff])
}

impl Subj {
    pub fn new(kind: &str) -> Subj {
        match kind {
            "vec" => Subj::Vec(Default::default()),
            "stride" => Subj::Stride(Default::default()),
            "list" => Subj::List(Default::default()),
            "opt" => Subj::Opt(Default::default()),
            k => {
                eprintln!("TOOL-ERROR: unknown index container kind {k}");
                std::process::exit(2)
            }
        }
    }
    /// push; for Stride returns (accepted, unchanged-when-rejected)
    pub fn push(&mut self, x: usize) -> (bool, bool) {
        match self {
            Subj::Vec(v) => {
                IndexContainer::push(v, x);
                (true, true)
            }
            Subj::List(v) => {
                IndexContainer::push(v, x);
                (true, true)
            }
            Subj::Opt(v) => {
                IndexContainer::push(v, x);
                (true, true)
            }
            Subj::Stride(s) => {
                let before = *s;
                let ok = s.push(x);
                (ok, ok || before == *s)
            }
        }
    }
    pub fn extend(&mut self, xs: Vec<usize>) {
        match self {
            Subj::Vec(v) => IndexContainer::extend(v, xs),
            Subj::List(v) => IndexContainer::extend(v, xs),
            Subj::Opt(v) => IndexContainer::extend(v, xs),
            Subj::Stride(_) => unreachable!(),
        }
    }
    pub fn clear(&mut self) {
        match self {
            Subj::Vec(v) => Storage::clear(v),
            Subj::List(v) => Storage::clear(v),
            Subj::Opt(v) => Storage::clear(v),
            Subj::Stride(s) => s.clear(),
        }
    }
    pub fn reserve(&mut self, n: usize) {
        match self {
            Subj::Vec(v) => Storage::reserve(v, n),
            Subj::List(v) => Storage::reserve(v, n),
            Subj::Opt(v) => Storage::reserve(v, n),
            Subj::Stride(_) => {}
        }
    }
    pub fn len(&self) -> usize {
        match self {
            Subj::Vec(v) => Storage::len(v),
            Subj::List(v) => Storage::len(v),
            Subj::Opt(v) => Storage::len(v),
            Subj::Stride(s) => s.len(),
        }
    }
    pub fn is_empty(&self) -> bool {
        match self {
            Subj::Vec(v) => Storage::is_empty(v),
            Subj::List(v) => Storage::is_empty(v),
            Subj::Opt(v) => Storage::is_empty(v),
            Subj::Stride(s) => s.is_empty(),
        }
    }
    pub fn index(&self, i: usize) -> usize {
        match self {
            Subj::Vec(v) => IndexContainer::index(v, i),
            Subj::List(v) => IndexContainer::index(v, i),
            Subj::Opt(v) => IndexContainer::index(v, i),
            Subj::Stride(s) => s.index(i),
        }
    }
    pub fn iter_all(&self) -> Vec<usize> {
        match self {
            Subj::Vec(v) => IndexContainer::iter(v).collect(),
            Subj::List(v) => IndexContainer::iter(v).collect(),
            Subj::Opt(v) => IndexContainer::iter(v).collect(),
            Subj::Stride(s) => s.iter().collect(),
        }
    }
    /// a cloned iterator, advanced independently from the middle
    pub fn iter_cloned_half(&self) -> (Vec<usize>, Vec<usize>) {
        fn go<I: Iterator<Item = usize> + Clone>(mut it: I, half: usize) -> (Vec<usize>, Vec<usize>) {
            let mut first = vec![];
            for _ in 0..half {
                if let Some(x) = it.next() {
                    first.push(x)
                }
            }
            let c = it.clone();
            let a: Vec<usize> = it.collect();
            let b: Vec<usize> = c.collect();
            let mut fa = first.clone();
            Extend::extend(&mut fa, a);
            Extend::extend(&mut first, b);
            (fa, first)
        }
        let half = self.len() / 2;
        match self {
            Subj::Vec(v) => go(IndexContainer::iter(v), half),
            Subj::List(v) => go(IndexContainer::iter(v), half),
            Subj::Opt(v) => go(IndexContainer::iter(v), half),
            Subj::Stride(s) => go(s.iter(), half),
        }
    }
    pub fn heap(&self) -> Vec<(usize, usize)> {
        let mut out = vec![];
        let cb = |u: usize, c: usize| out.push((u, c));
        match self {
            Subj::Vec(v) => Storage::heap_size(v, cb),
            Subj::List(v) => Storage::<usize>::heap_size(v, cb),
            Subj::Opt(v) => Storage::heap_size(v, cb),
            Subj::Stride(_) => {}
        }
        out
    }
    pub fn serde_roundtrip(&self) -> Result<Subj, String> {
        fn rt<T: serde::Serialize + serde::de::DeserializeOwned>(t: &T) -> Result<T, String> {
            let s = serde_json::to_string(t).map_err(|e| e.to_string())?;
            serde_json::from_str(&s).map_err(|e| e.to_string())
        }
        Ok(match self {
            Subj::Vec(v) => Subj::Vec(rt(v)?),
            Subj::List(v) => Subj::List(rt(v)?),
            Subj::Opt(v) => Subj::Opt(rt(v)?),
            Subj::Stride(s) => Subj::Stride(rt(s)?),
        })
    }
    /// clone_from into a target that already holds unrelated contents
    pub fn clone_from_dirty(&self) -> Subj {
        let mut t = Subj::new(self.kind());
        match &mut t {
            Subj::Stride(s) => {
                let _ = s.push(0);
                let _ = s.push(7);
                let _ = s.push(14);
            }
            t => {
                t.push(7);
                t.push(u32::MAX as usize + 5);
                t.push(1);
            }
        }
        match (&mut t, self) {
            (Subj::Vec(a), Subj::Vec(b)) => a.clone_from(b),
            (Subj::List(a), Subj::List(b)) => a.clone_from(b),
            (Subj::Opt(a), Subj::Opt(b)) => a.clone_from(b),
            (Subj::Stride(a), Subj::Stride(b)) => a.clone_from(b),
            _ => unreachable!(),
        }
        t
    }
    pub fn kind(&self) -> &'static str {
        match self {
            Subj::Vec(_) => "vec",
            Subj::List(_) => "list",
            Subj::Opt(_) => "opt",
            Subj::Stride(_) => "stride",
        }
    }
    /// Everything a caller can see, as JSON (the projection compared with the spec's `Obs`).
    pub fn observe(&self) -> Value {
        let len = self.len();
        let items: Vec<Value> = (0..len).map(|i| unword(self.index(i))).collect();
        let iter: Vec<Value> = self.iter_all().into_iter().map(unword).collect();
        let (ha, hb) = self.iter_cloned_half();
        let heap = self.heap();
        let used: usize = heap.iter().map(|p| p.0).sum();
        json!({
            "len": len,
            "is_empty": self.is_empty(),
            "items": items,
            "iter": iter,
            "iter_clone_a": ha.into_iter().map(unword).collect::<Vec<_>>(),
            "iter_clone_b": hb.into_iter().map(unword).collect::<Vec<_>>(),
            "used": used,
            "cap": heap.iter().map(|p| p.1).sum::<usize>(),
            "pairs_ok": heap.iter().all(|(u, c)| u <= c),
        })
    }
}

/// Apply one path element. Returns the op result (Stride accept flags) or a panic message.
pub fn apply(s: &mut Subj, op: &Value) -> Result<Value, String> {
    let name = op["op"].as_str().unwrap_or("?").to_string();
    let r = guarded(|| -> Result<Value, String> {
        match name.as_str() {
            "push" => {
                let (ok, unchanged) = s.push(word(&op["x"]));
                Ok(json!({"ok": ok, "unchanged": unchanged}))
            }
            "extend" => {
                let xs: Vec<usize> = op["xs"].as_array().map(|a| a.iter().map(word).collect()).unwrap_or_default();
                s.extend(xs);
                Ok(json!({"ok": true}))
            }
            "clear" => {
                s.clear();
                Ok(json!({"ok": true}))
            }
            "reserve" => {
                s.reserve(3);
                Ok(json!({"ok": true}))
            }
            "clone" => {
                *s = s.clone();
                Ok(json!({"ok": true}))
            }
            "clone_from" => {
                *s = s.clone_from_dirty();
                Ok(json!({"ok": true}))
            }
            "serde" => {
                *s = s.serde_roundtrip()?;
                Ok(json!({"ok": true}))
            }
            o => {
                eprintln!("TOOL-ERROR: unknown ic op {o}");
                std::process::exit(2)
            }
        }
    });
    match r {
        Ok(Ok(v)) => Ok(v),
        Ok(Err(e)) => Err(format!("serde error: {e}")),
        Err(p) => Err(format!("panic: {p}")),
    }
}

/// Signature used to match known findings: which mechanism failed, not which input.
fn signature(kind: &str, why: &str, path: &Value) -> String {
    let has_big_stride = path
        .as_array()
        .map(|p| p.iter().any(|o| o.get("x").map(|x| word(x) as u64 > u32::MAX as u64).unwrap_or(false)))
        .unwrap_or(false);
    format!("{kind}:{why}{}", if has_big_stride { ":large-value" } else { "" })
}

/// Replay one ICMC edge and judge it for `prop` (C05, C19, C16, C08, C09).
pub fn replay_edge(edge: &Value, prop: &str, rep: &mut Report) {
    let kind = edge["kind"].as_str().unwrap();
    let path = edge["path"].as_array().unwrap();
    let mut s = Subj::new(kind);
    let mut last = json!(null);
    let mut panicked: Option<(usize, String)> = None;
    // twins for the copy properties: the original keeps going next to the copy
    let mut twin: Option<Subj> = None;
    let mut twin_div: Option<String> = None;
    for (i, op) in path.iter().enumerate() {
        let name = op["op"].as_str().unwrap_or("");
        let is_copy = matches!(name, "clone" | "clone_from" | "serde");
        if is_copy && twin.is_none() {
            twin = Some(s.clone());
        } else if let Some(t) = twin.as_mut() {
            // the original takes the same continuation (copy ops are no-ops on it)
            if !is_copy {
                let _ = apply(t, op);
            }
        }
        match apply(&mut s, op) {
            Ok(v) => last = v,
            Err(m) => {
                panicked = Some((i, m));
                break;
            }
        }
        if let Some(t) = twin.as_ref() {
            if twin_div.is_none() {
                // contents only: capacities (a clone_from target may keep its allocation) are not part of C09/C16
                let content = |o: Result<Value, String>| o.map(|v| json!([v["len"], v["is_empty"], v["items"], v["iter"], v["iter_clone_a"], v["iter_clone_b"], v["used"]]));
                let (a, b) = (content(guarded(|| s.observe())), content(guarded(|| t.observe())));
                if a != b {
                    twin_div = Some(format!("step {i}: copy {:?} vs original {:?}", a, b));
                }
            }
        }
    }
    let obs = if panicked.is_none() { guarded(|| s.observe()) } else { Err("n/a".into()) };
    let exp = &edge["obs"];
    let mut why: Vec<String> = vec![];
    let mut judged = true;
    match prop {
        "C05" => {
            if let Some((i, m)) = &panicked {
                why.push(format!("panic-at-step-{i}:{}", m.chars().take(60).collect::<String>()));
            } else {
                match &obs {
                    Err(m) => why.push(format!("panic-observing:{}", m.chars().take(60).collect::<String>())),
                    Ok(o) => {
                        if o["len"] != exp["len"] {
                            why.push("len".into())
                        }
                        if o["is_empty"] != json!(exp["len"] == json!(0)) {
                            why.push("is_empty".into())
                        }
                        if o["items"] != exp["items"] {
                            why.push("index".into())
                        }
                        if o["iter"] != exp["items"] || o["iter_clone_a"] != exp["items"] || o["iter_clone_b"] != exp["items"] {
                            why.push("iter".into())
                        }
                        if kind == "stride" && path.last().map(|o| o["op"] == "push").unwrap_or(false) {
                            if last["ok"] != edge["res"]["ok"] {
                                why.push("stride-accept".into())
                            }
                            if last["unchanged"] != json!(true) {
                                why.push("stride-reject-changed-state".into())
                            }
                        }
                    }
                }
            }
        }
        "C19" => {
            // the cost rule is about heap bytes only; a panicking history is C05's business
            match (&panicked, &obs) {
                (None, Ok(o)) if kind != "stride" => {
                    if o["used"] != exp["used"] {
                        why.push("cost".into())
                    }
                    // a sequence that never left the documented shape occupies no heap at all: no capacity
                    // either (capacity retained by an earlier clear is legitimate, so no clear in the path)
                    let cleared = path.iter().any(|o| matches!(o["op"].as_str(), Some("clear") | Some("clone_from")));
                    if kind == "opt" && exp["used"] == json!(0) && !cleared && o["cap"] != json!(0) {
                        why.push("capacity-for-compressible-sequence".into())
                    }
                }
                _ => judged = false,
            }
        }
        "C18" => {
            // heap_size of index containers: used <= capacity, at least the documented bytes, never
            // decreasing on push / extend
            match (&panicked, &obs) {
                (None, Ok(o)) if kind != "stride" => {
                    if o["pairs_ok"] != json!(true) {
                        why.push("used-exceeds-capacity".into())
                    }
                    if o["used"].as_i64() < exp["used"].as_i64() {
                        why.push("used-below-stored".into())
                    }
                    if matches!(path.last().and_then(|o| o["op"].as_str()), Some("push") | Some("extend")) && path.len() >= 1 {
                        let mut prev = Subj::new(kind);
                        let mut ok = true;
                        for op in &path[..path.len() - 1] {
                            ok &= apply(&mut prev, op).is_ok();
                        }
                        if ok {
                            if let Ok(po) = guarded(|| prev.observe()) {
                                if o["used"].as_i64() < po["used"].as_i64() {
                                    why.push("used-decreased-on-push".into())
                                }
                            }
                        }
                    }
                }
                _ => judged = false,
            }
        }
        "C16" | "C09" => {
            // copy vs original on the same continuation (both real); needs a copy op in the path
            if twin.is_none() || panicked.is_some() {
                judged = false;
            } else if let Some(d) = &twin_div {
                why.push(format!("copy-diverges:{}", d.chars().take(200).collect::<String>()));
            }
        }
        "C08" => {
            // after the last clear the container is compared with a fresh twin fed the same suffix
            let last_clear = path.iter().rposition(|o| o["op"] == "clear");
            match (last_clear, &panicked) {
                (Some(k), None) => {
                    let mut fresh = Subj::new(kind);
                    let mut bad = false;
                    for op in &path[k + 1..] {
                        if apply(&mut fresh, op).is_err() {
                            bad = true
                        }
                    }
                    if bad {
                        judged = false
                    } else {
                        let content = |o: &Result<Value, String>| o.as_ref().ok().map(|v| json!([v["len"], v["is_empty"], v["items"], v["iter"], v["used"]]));
                        let f = guarded(|| fresh.observe());
                        if content(&f) != content(&obs) {
                            why.push("not-fresh-after-clear".into())
                        }
                    }
                }
                _ => judged = false,
            }
        }
        p => {
            eprintln!("TOOL-ERROR: ic-replay does not know property {p}");
            std::process::exit(2)
        }
    }
    rep.case(kind, judged);
    rep.sample(edge);
    if !why.is_empty() {
        let w = why.join(",");
        rep.violation(json!({
            "sig": signature(kind, why[0].split(':').next().unwrap_or(""), &edge["path"]),
            "why": w,
            "kind": kind,
            "path": edge["path"],
            "expected": {"res": edge["res"], "obs": exp},
            "observed": {"res": last, "obs": obs.clone().unwrap_or_else(|m| json!({"panic": m})),
                         "panicked": panicked.as_ref().map(|(i, m)| json!({"step": i, "msg": m}))},
        }));
    }
}

pub fn cmd_replay(file: &str, prop: &str, out: &str) {
    quiet_panics();
    let mut rep = Report::new();
    let n = for_each_edge(file, |e| replay_edge(&e, prop, &mut rep)).expect("read edges");
    rep.extra.insert("edges".into(), json!(n));
    rep.write(out, profile_name());
}
