//! Index-container subjects (src/impls/index.rs) and the replay of ICMC edges.
use crate::util::*;
use flatcontainer::impls::index::{IndexContainer, IndexList, IndexOptimized, Stride};
use flatcontainer::impls::storage::Storage;
use serde_json::{json, Value};

type List = IndexList<Vec<u32>, Vec<u64>>;

#[derive(Clone)]
pub enum Subj {
    Vec(Vec<usize>),
    Stride(Stride),
    List(List),
    Opt(IndexOptimized),
}

pub fn word(v: &Value) -> usize {
    let a = v.as_array().expect("word array");
    let mut x: u64 = 0;
    for (i, l) in a.iter().enumerate() {
        x |= (l.as_u64().unwrap()) << (16 * i);
    }
    x as usize
}
pub fn unword(x: usize) -> Value {
    let x = x as u64;
    json!([x & 0xffff, (x >> 16) & 0xffff, (x >> 32) & 0xffff, (x >> 48) & 0xffff])
}

impl Subj {
    pub fn new(kind: &str) -> Subj {
        match kind {
            "vec" => Subj::Vec(Default::default()),
            "stride" => Subj::Stride(Default::default()),
            "list" => Subj::List(Default::default()),
            "opt" => Subj::Opt(Default::default()),
            k => {
                eprintln!("TOOL-ERROR: unknown index container kind {k}");
                std::process::exit(2)
            }
        }
    }
    /// push; for Stride returns (accepted, unchanged-when-rejected)
    pub fn push(&mut self, x: usize) -> (bool, bool) {
        match self {
            Subj::Vec(v) => {
                IndexContainer::push(v, x);
                (true, true)
            }
            Subj::List(v) => {
                IndexContainer::push(v, x);
                (true, true)
            }
            Subj::Opt(v) => {
                IndexContainer::push(v, x);
                (true, true)
            }
            Subj::Stride(s) => {
                let before = *s;
                let ok = s.push(x);
                (ok, ok || before == *s)
            }
        }
    }
    pub fn extend(&mut self, xs: Vec<usize>) {
        match self {
            Subj::Vec(v) => IndexContainer::extend(v, xs),
            Subj::List(v) => IndexContainer::extend(v, xs),
            Subj::Opt(v) => IndexContainer::extend(v, xs),
            Subj::Stride(_) => unreachable!(),
        }
    }
    pub fn clear(&mut self) {
        match self {
            Subj::Vec(v) => Storage::clear(v),
            Subj::List(v) => Storage::clear(v),
            Subj::Opt(v) => Storage::clear(v),
            Subj::Stride(s) => s.clear(),
        }
    }
    pub fn reserve(&mut self, n: usize) {
        match self {
            Subj::Vec(v) => Storage::reserve(v, n),
            Subj::List(v) => Storage::reserve(v, n),
            Subj::Opt(v) => Storage::reserve(v, n),
            Subj::Stride(_) => {}
        }
    }
    pub fn len(&self) -> usize {
        match self {
            Subj::Vec(v) => Storage::len(v),
            Subj::List(v) => Storage::len(v),
            Subj::Opt(v) => Storage::len(v),
            Subj::Stride(s) => s.len(),
        }
    }
    pub fn is_empty(&self) -> bool {
        match self {
            Subj::Vec(v) => Storage::is_empty(v),
            Subj::List(v) => Storage::is_empty(v),
            Subj::Opt(v) => Storage::is_empty(v),
            Subj::Stride(s) => s.is_empty(),
        }
    }
    pub fn index(&self, i: usize) -> usize {
        match self {
            Subj::Vec(v) => IndexContainer::index(v, i),
            Subj::List(v) => IndexContainer::index(v, i),
            Subj::Opt(v) => IndexContainer::index(v, i),
            Subj::Stride(s) => s.index(i),
        }
    }
    pub fn iter_all(&self) -> Vec<usize> {
        match self {
            Subj::Vec(v) => IndexContainer::iter(v).collect(),
            Subj::List(v) => IndexContainer::iter(v).collect(),
            Subj::Opt(v) => IndexContainer::iter(v).collect(),
            Subj::Stride(s) => s.iter().collect(),
        }
    }
    /// a cloned iterator, advanced independently from the middle
    pub fn iter_cloned_half(&self) -> (Vec<usize>, Vec<usize>) {
        fn go<I: Iterator<Item = usize> + Clone>(mut it: I, half: usize) -> (Vec<usize>, Vec<usize>) {
            let mut first = vec![];
            for _ in 0..half {
                if let Some(x) = it.next() {
                    first.push(x)
                }
            }
            let c = it.clone();
            let a: Vec<usize> = it.collect();
            let b: Vec<usize> = c.collect();
            let mut fa = first.clone();
            Extend::extend(&mut fa, a);
            Extend::extend(&mut first, b);
            (fa, first)
        }
        let half = self.len() / 2;
        match self {
            Subj::Vec(v) => go(IndexContainer::iter(v), half),
            Subj::List(v) => go(IndexContainer::iter(v), half),
            Subj::Opt(v) => go(IndexContainer::iter(v), half),
            Subj::Stride(s) => go(s.iter(), half),
        }
    }
    pub fn heap(&self) -> Vec<(usize, usize)> {
        let mut out = vec![];
        let cb = |u: usize, c: usize| out.push((u, c));
        match self {
            Subj::Vec(v) => Storage::heap_size(v, cb),
            Subj::List(v) => Storage::<usize>::heap_size(v, cb),
            Subj::Opt(v) => Storage::heap_size(v, cb),
            Subj::Stride(_) => {}
        }
        out
    }
    pub fn serde_roundtrip(&self) -> Result<Subj, String> {
        fn rt<T: serde::Serialize + serde::de::DeserializeOwned>(t: &T) -> Result<T, String> {
            let s = serde_json::to_string(t).map_err(|e| e.to_string())?;
            serde_json::from_str(&s).map_err(|e| e.to_string())
        }
        Ok(match self {
            Subj::Vec(v) => Subj::Vec(rt(v)?),
            Subj::List(v) => Subj::List(rt(v)?),
            Subj::Opt(v) => Subj::Opt(rt(v)?),
            Subj::Stride(s) => Subj::Stride(rt(s)?),
        })
    }
    /// clone_from into a target that already holds unrelated contents
    pub fn clone_from_dirty(&self) -> Subj {
        let mut t = Subj::new(self.kind());
        match &mut t {
            Subj::Stride(s) => {
                let _ = s.push(0);
                let _ = s.push(7);
                let _ = s.push(14);
            }
            t => {
                t.push(7);
                t.push(u32::MAX as usize + 5);
                t.push(1);
            }
        }
        match (&mut t, self) {
            (Subj::Vec(a), Subj::Vec(b)) => a.clone_from(b),
            (Subj::List(a), Subj::List(b)) => a.clone_from(b),
            (Subj::Opt(a), Subj::Opt(b)) => a.clone_from(b),
            (Subj::Stride(a), Subj::Stride(b)) => a.clone_from(b),
            _ => unreachable!(),
        }
        t
    }
    pub fn kind(&self) -> &'static str {
        match self {
            Subj::Vec(_) => "vec",
            Subj::List(_) => "list",
            Subj::Opt(_) => "opt",
            Subj::Stride(_) => "stride",
        }
    }
    /// positional jumps of the iterator, rendered as the sequence they should reproduce: for every start p
    /// (up to 12) nth(p) followed by the rest must be items[p..]; likewise skip(p), last(), count()
    fn iter_jumps(&self, len: usize) -> Value {
        let all: Vec<usize> = (0..len).map(|i| self.index(i)).collect();
        for p in 0..=len.min(12) {
            for how in 0..4 {
                let (w, _) = self.iter_window(p, len + 2, how);
                if w != all[p.min(len)..] {
                    return json!(format!("from {p} (how {how}) the iterator yields {:?}", w));
                }
            }
        }
        json!("ok")
    }
    /// Everything a caller can see, as JSON (the projection compared with the spec's `Obs`).
    pub fn observe(&self) -> Value {
        let len = self.len();
        let items: Vec<Value> = (0..len).map(|i| unword(self.index(i))).collect();
        let iter: Vec<Value> = self.iter_all().into_iter().map(unword).collect();
        let (ha, hb) = self.iter_cloned_half();
        let heap = self.heap();
        let used: usize = heap.iter().map(|p| p.0).sum();
        json!({
            "len": len,
            "is_empty": self.is_empty(),
            "items": items,
            "iter": iter,
            "iter_clone_a": ha.into_iter().map(unword).collect::<Vec<_>>(),
            "iter_clone_b": hb.into_iter().map(unword).collect::<Vec<_>>(),
            "used": used,
            "cap": heap.iter().map(|p| p.1).sum::<usize>(),
            "pairs_ok": heap.iter().all(|(u, c)| u <= c),
            "iter_jumps": self.iter_jumps(len),
        })
    }
}

/// Apply one path element. Returns the op result (Stride accept flags) or a panic message.
pub fn apply(s: &mut Subj, op: &Value) -> Result<Value, String> {
    let name = op["op"].as_str().unwrap_or("?").to_string();
    let r = guarded(|| -> Result<Value, String> {
        match name.as_str() {
            "push" => {
                let (ok, unchanged) = s.push(word(&op["x"]));
                Ok(json!({"ok": ok, "unchanged": unchanged}))
            }
            "extend" => {
                let xs: Vec<usize> = op["xs"].as_array().map(|a| a.iter().map(word).collect()).unwrap_or_default();
                s.extend(xs);
                Ok(json!({"ok": true}))
            }
            "clear" => {
                s.clear();
                Ok(json!({"ok": true}))
            }
            "reserve" => {
                s.reserve(3);
                Ok(json!({"ok": true}))
            }
            "clone" => {
                *s = s.clone();
                Ok(json!({"ok": true}))
            }
            "clone_from" => {
                *s = s.clone_from_dirty();
                Ok(json!({"ok": true}))
            }
            "serde" => {
                *s = s.serde_roundtrip()?;
                Ok(json!({"ok": true}))
            }
            o => {
                eprintln!("TOOL-ERROR: unknown ic op {o}");
                std::process::exit(2)
            }
        }
    });
    match r {
        Ok(Ok(v)) => Ok(v),
        Ok(Err(e)) => Err(format!("serde error: {e}")),
        Err(p) => Err(format!("panic: {p}")),
    }
}

/// Signature used to match known findings: which mechanism failed, not which input.
fn signature(kind: &str, why: &str, path: &Value) -> String {
    let has_big_stride = path
        .as_array()
        .map(|p| p.iter().any(|o| o.get("x").map(|x| word(x) as u64 > u32::MAX as u64).unwrap_or(false)))
        .unwrap_or(false);
    format!("{kind}:{why}{}", if has_big_stride { ":large-value" } else { "" })
}

/// The same ICMC histories taken THROUGH regions whose inner index is the value itself, so that every
/// enumerated sequence over the transition-covering alphabet (incl. 2^63, usize::MAX) reaches the index
/// container the way users reach it: `SliceRegion<MirrorRegion<usize>, S>` (push of a one-element slice per
/// value, one slice per extend batch) and `FlatStack<MirrorRegion<usize>, S>` (copy / extend).
/// Judged as C01 (a push may not panic and reads back), C02 (earlier items unchanged) and C03 (the stack is
/// the sequence of copies).
fn through_region<S>(path: &[Value], why: &mut Vec<String>, forms: bool)
where
    S: IndexContainer<usize> + Clone + serde::Serialize + serde::de::DeserializeOwned + 'static,
{
    use flatcontainer::{FlatStack, MirrorRegion, Push, Region, SliceRegion};
    let mut r = SliceRegion::<MirrorRegion<usize>, S>::default();
    // C20: a twin fed the same slices as READ ITEMS of another region (pushed element by element by the crate)
    // next to the subject fed plain slices (bulk path): equal indices, equal reads
    let mut twin = SliceRegion::<MirrorRegion<usize>, S>::default();
    let mut st = FlatStack::<MirrorRegion<usize>, S>::default();
    let mut issued: Vec<((usize, usize), Vec<usize>)> = vec![];
    let mut copied: Vec<usize> = vec![];
    for (i, op) in path.iter().enumerate() {
        let name = op["op"].as_str().unwrap_or("");
        let res = guarded(|| -> Result<(), String> {
            match name {
                "push" | "extend" => {
                    let xs: Vec<usize> = if name == "push" { vec![word(&op["x"])] } else { op["xs"].as_array().map(|a| a.iter().map(word).collect()).unwrap_or_default() };
                    let idx = r.push(xs.as_slice());
                    if forms {
                        let mut donor = SliceRegion::<MirrorRegion<usize>, S>::default();
                        let _ = donor.push([0usize, 1].as_slice());
                        let di = donor.push(xs.as_slice());
                        let _ = donor.push([2usize].as_slice());
                        let ti = twin.push(donor.index(di));
                        let got: Vec<usize> = twin.index(ti).iter().collect();
                        if ti != idx || got != xs {
                            return Err(format!("form-differs: slice form returned {:?}, read-item form {:?} reading {:?} for {:?}", idx, ti, got, xs));
                        }
                    }
                    issued.push((idx, xs.clone()));
                    if name == "push" {
                        st.copy(xs[0]);
                    } else {
                        std::iter::Extend::extend(&mut st, xs.clone());
                    }
                    std::iter::Extend::extend(&mut copied, xs);
                }
                "clear" => {
                    r.clear();
                    twin.clear();
                    st.clear();
                    issued.clear();
                    copied.clear();
                }
                "clone" => {
                    r = r.clone();
                    st = st.clone();
                }
                "serde" => {
                    let t = serde_json::to_string(&r).map_err(|e| e.to_string())?;
                    r = serde_json::from_str(&t).map_err(|e| e.to_string())?;
                    let t = serde_json::to_string(&st).map_err(|e| e.to_string())?;
                    st = serde_json::from_str(&t).map_err(|e| e.to_string())?;
                }
                _ => {}
            }
            Ok(())
        });
        match res {
            Err(m) => {
                why.push(format!("through-region-panic-at-step-{i}:{}", m.chars().take(120).collect::<String>()));
                return;
            }
            Ok(Err(m)) if m.starts_with("form-differs") => {
                why.push(format!("through-region-{m}"));
                return;
            }
            Ok(Err(m)) => {
                why.push(format!("through-region-serde-failed:{m}"));
                return;
            }
            Ok(Ok(())) => {}
        }
        // every issued index reads back its slice; the stack is the sequence of copies
        let ok = guarded(|| {
            for (idx, xs) in &issued {
                let item = r.index(*idx);
                let got: Vec<usize> = item.iter().collect();
                let by_get: Vec<usize> = (0..item.len()).map(|k| item.get(k)).collect();
                if &got != xs || &by_get != xs {
                    return Some(format!("through-region-read-differs:step {i}: pushed {:?}, read {:?} / {:?}", xs, got, by_get));
                }
            }
            let all: Vec<usize> = st.iter().collect();
            let by_get: Vec<usize> = (0..st.len()).map(|k| st.get(k)).collect();
            if st.len() != copied.len() || all != copied || by_get != copied || st.is_empty() != copied.is_empty() {
                return Some(format!("through-region-stack-differs:step {i}: copied {:?}, iter {:?}, get {:?}", copied, all, by_get));
            }
            None
        });
        match ok {
            Err(m) => {
                why.push(format!("through-region-read-panicked:step {i}: {}", m.chars().take(120).collect::<String>()));
                return;
            }
            Ok(Some(w)) => {
                why.push(w);
                return;
            }
            Ok(None) => {}
        }
    }
}

/// ICMC histories read as OFFSET sequences of `ConsecutiveIndexPairs<OwnedRegion<()>, S>` (zero-sized payload:
/// items of 2^31 elements cost nothing): a path 0, x1, x2, ... with non-decreasing values is the history "push an
/// item of x1 elements, then one of x2 - x1, ...".  Judged as C12: the k-th push returns k, and every item reads
/// back with its length.  Paths that are not offset sequences are not judged.
fn through_pairs<S>(path: &[Value], why: &mut Vec<String>) -> bool
where
    S: IndexContainer<usize> + Clone + serde::Serialize + serde::de::DeserializeOwned + 'static,
{
    use flatcontainer::impls::deduplicate::ConsecutiveIndexPairs;
    use flatcontainer::{OwnedRegion, Push, Region};
    let mut r = ConsecutiveIndexPairs::<OwnedRegion<()>, S>::default();
    let mut lens: Vec<usize> = vec![];
    let mut last: Option<usize> = None; // None: the implicit leading 0 has not been seen yet
    for (i, op) in path.iter().enumerate() {
        let name = op["op"].as_str().unwrap_or("");
        match name {
            "push" => {
                let x = word(&op["x"]);
                match last {
                    None => {
                        if x != 0 {
                            return false;
                        }
                        last = Some(0);
                        continue;
                    }
                    Some(l) if x < l => return false,
                    Some(l) => {
                        let n = x - l;
                        let item: Vec<()> = vec![(); n];
                        match guarded(|| r.push(item.as_slice())) {
                            Err(m) => {
                                why.push(format!("through-pairs-push-panicked:step {i}: {}", m.chars().take(120).collect::<String>()));
                                return true;
                            }
                            Ok(idx) => {
                                if idx != lens.len() {
                                    why.push(format!("through-pairs-index-not-dense:step {i}: push number {} returned {idx}", lens.len()));
                                    return true;
                                }
                            }
                        }
                        lens.push(n);
                        last = Some(x);
                    }
                }
            }
            "clear" => {
                if guarded(|| r.clear()).is_err() {
                    why.push(format!("through-pairs-clear-panicked:step {i}"));
                    return true;
                }
                lens.clear();
                last = None;
            }
            "clone" => r = r.clone(),
            "serde" => {
                let t = serde_json::to_string(&r);
                match t.ok().and_then(|t| serde_json::from_str(&t).ok()) {
                    Some(c) => r = c,
                    None => return false,
                }
            }
            "extend" => return false,
            _ => {}
        }
        let bad = guarded(|| {
            for k in 0..lens.len() {
                let n = lens[k];
                let item: &[()] = r.index(k);
                if item.len() != n {
                    return Some(format!("through-pairs-kth-read-differs:step {i}: item {k} has {} elements, pushed {n}", item.len()));
                }
            }
            None
        });
        match bad {
            Err(m) => {
                why.push(format!("through-pairs-read-panicked:step {i}: {}", m.chars().take(120).collect::<String>()));
                return true;
            }
            Ok(Some(w)) => {
                why.push(w);
                return true;
            }
            Ok(None) => {}
        }
    }
    last.is_some()
}

/// Replay one ICMC edge and judge it for `prop` (C05, C19, C16, C08, C09; C01/C02/C03 through regions; C12 through pairs).
pub fn replay_edge(edge: &Value, prop: &str, rep: &mut Report) {
    let kind = edge["kind"].as_str().unwrap();
    let path = edge["path"].as_array().unwrap();
    if prop == "C12" {
        let mut why: Vec<String> = vec![];
        let judged = match kind {
            "opt" => through_pairs::<IndexOptimized>(path, &mut why),
            "list" => through_pairs::<List>(path, &mut why),
            "vec" => through_pairs::<Vec<usize>>(path, &mut why),
            _ => false,
        };
        rep.case(kind, judged);
        if judged {
            rep.sample(edge);
        }
        if !why.is_empty() {
            rep.violation(json!({
                "sig": signature(kind, why[0].split(':').next().unwrap_or(""), &edge["path"]),
                "why": why.join(","),
                "kind": kind,
                "path": edge["path"],
                "expected": {"res": edge["res"], "obs": edge["obs"]},
                "observed": {"why": why},
            }));
        }
        return;
    }
    if matches!(prop, "C01" | "C02" | "C03" | "C20") {
        let mut why: Vec<String> = vec![];
        let forms = prop == "C20";
        match kind {
            "opt" => through_region::<IndexOptimized>(path, &mut why, forms),
            "list" => through_region::<List>(path, &mut why, forms),
            "vec" => through_region::<Vec<usize>>(path, &mut why, forms),
            _ => {
                rep.case(kind, false);
                return;
            }
        }
        rep.case(kind, true);
        rep.sample(edge);
        if !why.is_empty() {
            rep.violation(json!({
                "sig": signature(kind, why[0].split(':').next().unwrap_or(""), &edge["path"]),
                "why": why.join(","),
                "kind": kind,
                "path": edge["path"],
                "expected": {"res": edge["res"], "obs": edge["obs"]},
                "observed": {"why": why},
            }));
        }
        return;
    }
    let mut s = Subj::new(kind);
    let mut last = json!(null);
    let mut panicked: Option<(usize, String)> = None;
    // twins for the copy properties: the original keeps going next to the copy
    let mut twin: Option<Subj> = None;
    let mut twin_div: Option<String> = None;
    for (i, op) in path.iter().enumerate() {
        let name = op["op"].as_str().unwrap_or("");
        let is_copy = matches!(name, "clone" | "clone_from" | "serde");
        if is_copy && twin.is_none() {
            twin = Some(s.clone());
        } else if let Some(t) = twin.as_mut() {
            // the original takes the same continuation (copy ops are no-ops on it)
            if !is_copy {
                let _ = apply(t, op);
            }
        }
        match apply(&mut s, op) {
            Ok(v) => last = v,
            Err(m) => {
                panicked = Some((i, m));
                break;
            }
        }
        if let Some(t) = twin.as_ref() {
            if twin_div.is_none() {
                // contents only: capacities (a clone_from target may keep its allocation) are not part of C09/C16
                let content = |o: Result<Value, String>| o.map(|v| json!([v["len"], v["is_empty"], v["items"], v["iter"], v["iter_clone_a"], v["iter_clone_b"], v["used"]]));
                let (a, b) = (content(guarded(|| s.observe())), content(guarded(|| t.observe())));
                if a != b {
                    twin_div = Some(format!("step {i}: copy {:?} vs original {:?}", a, b));
                }
            }
        }
    }
    let obs = if panicked.is_none() { guarded(|| s.observe()) } else { Err("n/a".into()) };
    let exp = &edge["obs"];
    let mut why: Vec<String> = vec![];
    let mut judged = true;
    match prop {
        "C05" => {
            if let Some((i, m)) = &panicked {
                why.push(format!("panic-at-step-{i}:{}", m.chars().take(60).collect::<String>()));
            } else {
                match &obs {
                    Err(m) => why.push(format!("panic-observing:{}", m.chars().take(60).collect::<String>())),
                    Ok(o) => {
                        if o["len"] != exp["len"] {
                            why.push("len".into())
                        }
                        if o["is_empty"] != json!(exp["len"] == json!(0)) {
                            why.push("is_empty".into())
                        }
                        if o["items"] != exp["items"] {
                            why.push("index".into())
                        }
                        if o["iter"] != exp["items"] || o["iter_clone_a"] != exp["items"] || o["iter_clone_b"] != exp["items"] {
                            why.push("iter".into())
                        }
                        if o["iter_jumps"] != json!("ok") {
                            why.push("iter-jump".into())
                        }
                        if kind == "stride" && path.last().map(|o| o["op"] == "push").unwrap_or(false) {
                            if last["ok"] != edge["res"]["ok"] {
                                why.push("stride-accept".into())
                            }
                            if last["unchanged"] != json!(true) {
                                why.push("stride-reject-changed-state".into())
                            }
                        }
                    }
                }
            }
        }
        "C19" => {
            // the cost rule is about heap bytes only; a panicking history is C05's business
            match (&panicked, &obs) {
                (None, Ok(o)) if kind != "stride" => {
                    if o["used"] != exp["used"] {
                        why.push("cost".into())
                    }
                    // a sequence that never left the documented shape occupies no heap at all: no capacity
                    // either (capacity retained by an earlier clear is legitimate, so no clear in the path)
                    let cleared = path.iter().any(|o| matches!(o["op"].as_str(), Some("clear") | Some("clone_from")));
                    if kind == "opt" && exp["used"] == json!(0) && !cleared && o["cap"] != json!(0) {
                        why.push("capacity-for-compressible-sequence".into())
                    }
                }
                _ => judged = false,
            }
        }
        "C18" => {
            // heap_size of index containers: used <= capacity, at least the documented bytes, never
            // decreasing on push / extend
            match (&panicked, &obs) {
                (None, Ok(o)) if kind != "stride" => {
                    if o["pairs_ok"] != json!(true) {
                        why.push("used-exceeds-capacity".into())
                    }
                    if o["used"].as_i64() < exp["used"].as_i64() {
                        why.push("used-below-stored".into())
                    }
                    if matches!(path.last().and_then(|o| o["op"].as_str()), Some("push") | Some("extend")) && path.len() >= 1 {
                        let mut prev = Subj::new(kind);
                        let mut ok = true;
                        for op in &path[..path.len() - 1] {
                            ok &= apply(&mut prev, op).is_ok();
                        }
                        if ok {
                            if let Ok(po) = guarded(|| prev.observe()) {
                                if o["used"].as_i64() < po["used"].as_i64() {
                                    why.push("used-decreased-on-push".into())
                                }
                            }
                        }
                    }
                }
                _ => judged = false,
            }
        }
        "C16" | "C09" => {
            // copy vs original on the same continuation (both real); needs a copy op in the path
            if twin.is_none() || panicked.is_some() {
                judged = false;
            } else if let Some(d) = &twin_div {
                why.push(format!("copy-diverges:{}", d.chars().take(200).collect::<String>()));
            }
        }
        "C08" => {
            // after the last clear the container is compared with a fresh twin fed the same suffix
            let last_clear = path.iter().rposition(|o| o["op"] == "clear");
            match (last_clear, &panicked) {
                (Some(k), None) => {
                    let mut fresh = Subj::new(kind);
                    let mut bad = false;
                    for op in &path[k + 1..] {
                        if apply(&mut fresh, op).is_err() {
                            bad = true
                        }
                    }
                    if bad {
                        judged = false
                    } else {
                        let content = |o: &Result<Value, String>| o.as_ref().ok().map(|v| json!([v["len"], v["is_empty"], v["items"], v["iter"], v["used"]]));
                        let f = guarded(|| fresh.observe());
                        if content(&f) != content(&obs) {
                            why.push("not-fresh-after-clear".into())
                        }
                    }
                }
                _ => judged = false,
            }
        }
        p => {
            eprintln!("TOOL-ERROR: ic-replay does not know property {p}");
            std::process::exit(2)
        }
    }
    rep.case(kind, judged);
    rep.sample(edge);
    if !why.is_empty() {
        let w = why.join(",");
        rep.violation(json!({
            "sig": signature(kind, why[0].split(':').next().unwrap_or(""), &edge["path"]),
            "why": w,
            "kind": kind,
            "path": edge["path"],
            "expected": {"res": edge["res"], "obs": exp},
            "observed": {"res": last, "obs": obs.clone().unwrap_or_else(|m| json!({"panic": m})),
                         "panicked": panicked.as_ref().map(|(i, m)| json!({"step": i, "msg": m}))},
        }));
    }
}

pub fn cmd_replay(file: &str, prop: &str, out: &str) {
    quiet_panics();
    let mut rep = Report::new();
    let n = for_each_edge(file, |e| replay_edge(&e, prop, &mut rep)).expect("read edges");
    rep.extra.insert("edges".into(), json!(n));
    rep.write(out, profile_name());
}

// ---------------------------------------------------------------------------------------------
// Long walks (impl -> spec): `ic-walk --seed N --runs K --len L --out trace.ndjson`, validated by
// spec/TraceIC.tla.  One run = one container of one kind taken through phases of thousands of pushes.

impl Subj {
    /// up to `k` items of the iterator from position `from`, reached by nth() or by repeated next(), or on
    /// a clone taken half-way; the flag tells whether the iterator ended
    pub fn iter_window(&self, from: usize, k: usize, how: usize) -> (Vec<usize>, bool) {
        fn go<I: Iterator<Item = usize> + Clone>(mut it: I, from: usize, k: usize, how: usize) -> (Vec<usize>, bool) {
            match how {
                0 => {
                    if from > 0 {
                        it.nth(from - 1);
                    }
                }
                1 => {
                    for _ in 0..from {
                        it.next();
                    }
                }
                3 => {
                    // nth on an iterator that was already advanced
                    let first = from.min(2);
                    for _ in 0..first {
                        it.next();
                    }
                    if from > first {
                        it.nth(from - first - 1);
                    }
                }
                _ => {
                    for _ in 0..from / 2 {
                        it.next();
                    }
                    let mut c = it.clone();
                    for _ in from / 2..from {
                        c.next();
                    }
                    it = c;
                }
            }
            let mut out = vec![];
            for _ in 0..k {
                match it.next() {
                    Some(x) => out.push(x),
                    None => return (out, true),
                }
            }
            (out, false)
        }
        match self {
            Subj::Vec(v) => go(IndexContainer::iter(v), from, k, how),
            Subj::List(v) => go(IndexContainer::iter(v), from, k, how),
            Subj::Opt(v) => go(IndexContainer::iter(v), from, k, how),
            Subj::Stride(s) => go(s.iter(), from, k, how),
        }
    }
    fn used(&self) -> usize {
        self.heap().iter().map(|p| p.0).sum()
    }
}

pub fn cmd_walk(seed: u64, runs: usize, maxlen: usize, out: &str) {
    use rand::rngs::StdRng;
    use rand::{Rng, SeedableRng};
    use std::io::Write;
    quiet_panics();
    let f = std::fs::File::create(out).expect("create trace");
    let mut w = std::io::BufWriter::new(f);
    let mut rng = StdRng::seed_from_u64(seed);
    const STRIDES: [u64; 16] =
        [0, 1, 2, 3, 7, 1 << 16, (1 << 31) - 1, 1 << 31, u32::MAX as u64, 1 << 32, (1 << 32) + 1, 1 << 48, 1 << 52, 1 << 56, 1 << 60, 1 << 63];
    let mut events = 0u64;
    for run in 1..=runs as u64 {
        let kind = ["opt", "list", "opt", "stride", "opt", "vec"][(run as usize - 1) % 6];
        let mut s = Subj::new(kind);
        let mut ev = |v: Value| {
            let mut v = v;
            v["run"] = json!(run);
            writeln!(w, "{}", v).unwrap();
            events += 1;
        };
        ev(json!({"ev": "reset", "kind": kind}));
        let target = if run % 3 == 0 { maxlen } else { rng.gen_range(20..maxlen.max(21)) };
        let mut total = 0usize;
        let mut alive = true;
        let mut last: usize = 0;
        let mut first_phase = true;
        // one push with its observation; false when the run is over (panic)
        // in batch mode (never for Stride) the values of a phase travel through `extend` in batches that end at
        // the next observation; the trace lists them as individual pushes, observed after the batch
        let mut buf: Vec<usize> = vec![];
        let batch_mode = std::cell::Cell::new(false);
        let mut push = |s: &mut Subj, x: usize, obs: bool, rng: &mut StdRng, ev: &mut dyn FnMut(Value)| -> bool {
            let mut x = x;
            if batch_mode.get() {
                buf.push(x);
                if !(obs || buf.len() >= 48) {
                    return true;
                }
                let mut xs = std::mem::take(&mut buf);
                x = xs.pop().unwrap();
                let head = xs.clone();
                if let Err(m) = guarded(|| s.extend(xs)) {
                    ev(json!({"ev": "push", "x": unword(x), "panic": true, "msg": m, "ok": false, "untouched": true, "obs": false, "via": "extend"}));
                    return false;
                }
                for h in head {
                    ev(json!({"ev": "push", "x": unword(h), "panic": false, "ok": true, "untouched": true, "obs": false, "via": "extend",
                              "len": 0, "empty": false, "used": 0, "last": unword(0)}));
                }
            }
            let obs = obs || batch_mode.get();
            let r = if batch_mode.get() { guarded(|| { s.extend(vec![x]); (true, true) }) } else { guarded(|| s.push(x)) };
            match r {
                Err(m) => {
                    ev(json!({"ev": "push", "x": unword(x), "panic": true, "msg": m, "ok": false, "untouched": true, "obs": false}));
                    false
                }
                Ok((ok, untouched)) => {
                    let o = if obs { guarded(|| (s.len(), s.is_empty(), s.used(), if s.len() > 0 { s.index(s.len() - 1) } else { 0 })) } else { Ok((0, true, 0, 0)) };
                    match o {
                        Err(m) => {
                            ev(json!({"ev": "push", "x": unword(x), "panic": true, "msg": m, "ok": ok, "untouched": untouched, "obs": false}));
                            false
                        }
                        Ok((len, empty, used, lastv)) => {
                            ev(json!({"ev": "push", "x": unword(x), "panic": false, "ok": ok, "untouched": untouched, "obs": obs,
                                      "len": len, "empty": empty, "used": used, "last": unword(lastv)}));
                            if obs && len > 0 {
                                for _ in 0..2 {
                                    let i = rng.gen_range(0..len);
                                    match guarded(|| s.index(i)) {
                                        Ok(v) => ev(json!({"ev": "probe", "i": i, "v": unword(v), "panic": false})),
                                        Err(m) => {
                                            ev(json!({"ev": "probe", "i": i, "v": unword(0), "panic": true, "msg": m}));
                                            return false;
                                        }
                                    }
                                }
                            }
                            true
                        }
                    }
                }
            }
        };
        while alive && total < target {
            let phase = if first_phase && rng.gen_bool(0.75) { 0 } else { rng.gen_range(0..10) };
            first_phase = false;
            let budget = target - total;
            batch_mode.set(kind != "stride" && rng.gen_bool(0.3));
            match phase {
                0 | 1 => {
                    // 0, s, 2s, ... (when the container is empty this is the compressible shape); when the product
                    // leaves usize the wrapped value is pushed once - a non-continuation
                    let st = STRIDES[rng.gen_range(0..STRIDES.len())] as usize;
                    let k = rng.gen_range(2..=budget.clamp(2, 6000));
                    for c in 0..k {
                        let (x, over) = match st.checked_mul(c) {
                            Some(x) => (x, false),
                            None => (st.wrapping_mul(c), true),
                        };
                        let obs = total < 40 || over || c + 1 == k || rng.gen_bool(0.1);
                        alive = push(&mut s, x, obs, &mut rng, &mut ev);
                        total += 1;
                        last = x;
                        if !alive || over {
                            break;
                        }
                    }
                }
                2 => {
                    let r = rng.gen_range(1..=budget.clamp(1, 400));
                    for c in 0..r {
                        alive = push(&mut s, last, c + 1 == r || rng.gen_bool(0.1), &mut rng, &mut ev);
                        total += 1;
                        if !alive {
                            break;
                        }
                    }
                }
                3 | 4 => {
                    let m = rng.gen_range(1..=budget.clamp(1, 1500));
                    for c in 0..m {
                        let x = match rng.gen_range(0..4) {
                            0 => rng.gen_range(0..100usize),
                            1 => u32::MAX as usize - rng.gen_range(0..3usize),
                            _ => rng.gen::<u32>() as usize,
                        };
                        alive = push(&mut s, x, c + 1 == m || rng.gen_bool(0.1), &mut rng, &mut ev);
                        total += 1;
                        last = x;
                        if !alive {
                            break;
                        }
                    }
                }
                5 => {
                    let m = rng.gen_range(1..=budget.clamp(1, 300));
                    for c in 0..m {
                        let x = match rng.gen_range(0..4) {
                            0 => u32::MAX as usize + 1 + rng.gen_range(0..3usize),
                            1 => usize::MAX - rng.gen_range(0..3usize),
                            _ => (rng.gen::<u64>() | (1 << 32)) as usize,
                        };
                        alive = push(&mut s, x, c + 1 == m || rng.gen_bool(0.1), &mut rng, &mut ev);
                        total += 1;
                        last = x;
                        if !alive {
                            break;
                        }
                    }
                }
                6 => {
                    // a window of the iterator
                    let len = s.len();
                    let from = if len == 0 { 0 } else { rng.gen_range(0..=len) };
                    let how = rng.gen_range(0..4);
                    match guarded(|| s.iter_window(from, 8, how)) {
                        Ok((vs, complete)) => ev(json!({"ev": "iter", "from": from, "how": how, "vs": vs.into_iter().map(unword).collect::<Vec<_>>(), "complete": complete, "panic": false})),
                        Err(m) => {
                            ev(json!({"ev": "iter", "from": from, "how": how, "vs": [], "complete": false, "panic": true, "msg": m}));
                            alive = false;
                        }
                    }
                }
                7 => {
                    if rng.gen_bool(0.4) {
                        let cb: usize = s.heap().iter().map(|p| p.1).sum();
                        match guarded(|| {
                            s.clear();
                            (s.len(), s.is_empty(), s.used())
                        }) {
                            Ok((len, empty, used)) => {
                                let ca: usize = s.heap().iter().map(|p| p.1).sum();
                                ev(json!({"ev": "clear", "len": len, "empty": empty, "used": used, "cap_before": cb, "cap_after": ca, "panic": false}));
                                first_phase = true;
                            }
                            Err(m) => {
                                ev(json!({"ev": "clear", "len": 0, "empty": true, "used": 0, "cap_before": 0, "cap_after": 0, "panic": true, "msg": m}));
                                alive = false;
                            }
                        }
                    }
                }
                8 => {
                    let how = ["clone", "clone_from", "serde"][rng.gen_range(0..3)];
                    let r = guarded(|| -> Result<Subj, String> {
                        Ok(match how {
                            "clone" => s.clone(),
                            "clone_from" => s.clone_from_dirty(),
                            _ => s.serde_roundtrip()?,
                        })
                    });
                    match r {
                        Ok(Ok(c)) => {
                            s = c;
                            ev(json!({"ev": "copy", "how": how, "len": s.len(), "empty": s.is_empty(), "used": s.used(), "panic": false}));
                        }
                        Ok(Err(m)) | Err(m) => {
                            ev(json!({"ev": "copy", "how": how, "len": 0, "empty": true, "used": 0, "panic": true, "msg": m}));
                            alive = false;
                        }
                    }
                }
                _ => {
                    let nres = rng.gen_range(0..200usize);
                    match guarded(|| {
                        s.reserve(nres);
                        (s.len(), s.is_empty(), s.used())
                    }) {
                        Ok((len, empty, used)) => ev(json!({"ev": "reserve", "n": nres, "len": len, "empty": empty, "used": used, "panic": false})),
                        Err(m) => {
                            ev(json!({"ev": "reserve", "n": nres, "len": 0, "empty": true, "used": 0, "panic": true, "msg": m}));
                            alive = false;
                        }
                    }
                }
            }
        }
        if alive {
            // a final window over the tail: the iterator must end exactly at len
            let len = s.len();
            let from = len.saturating_sub(5);
            if let Ok((vs, complete)) = guarded(|| s.iter_window(from, 8, 1)) {
                ev(json!({"ev": "iter", "from": from, "how": 1, "vs": vs.into_iter().map(unword).collect::<Vec<_>>(), "complete": complete, "panic": false}));
            }
        }
    }
    w.flush().unwrap();
    eprintln!("ic-walk: {runs} runs, {events} events");
}
