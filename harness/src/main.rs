//! fcverif: conformance harness binding the TLA+ specifications in /verif/spec to the
//! flatcontainer crate in /repo (path dependency, rebuilt from the working tree).
mod catalogue;
mod ic;
mod interp;
mod judge;
mod slot;
mod stack;
mod util;
mod val;

fn arg(args: &[String], name: &str) -> Option<String> {
    args.iter().position(|a| a == name).and_then(|i| args.get(i + 1).cloned())
}

fn main() {
    let args: Vec<String> = std::env::args().collect();
    let cmd = args.get(1).map(String::as_str).unwrap_or("");
    match cmd {
        "ic-replay" => {
            let file = args.get(2).expect("edge file");
            let prop = arg(&args, "--prop").expect("--prop");
            let out = arg(&args, "--out").expect("--out");
            ic::cmd_replay(file, &prop, &out);
        }
        "replay" => {
            let file = args.get(2).expect("edge file");
            let prop = arg(&args, "--prop").expect("--prop");
            let out = arg(&args, "--out").expect("--out");
            judge::cmd_replay(file, &prop, &out);
        }
        "stack-replay" => {
            let file = args.get(2).expect("edge file");
            let prop = arg(&args, "--prop").expect("--prop");
            let out = arg(&args, "--out").expect("--out");
            stack::cmd_replay(file, &prop, &out);
        }
        "stacks" => println!("{}", serde_json::to_string_pretty(&stack::stacks_json()).unwrap()),
        "catalogue" => println!("{}", serde_json::to_string_pretty(&catalogue::catalogue_json()).unwrap()),
        "profile" => println!("{}", util::profile_name()),
        _ => {
            eprintln!("usage: fcverif <ic-replay|...>");
            std::process::exit(2);
        }
    }
}
