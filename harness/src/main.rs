//! fcverif: conformance harness binding the TLA+ specifications in /verif/spec to the
//! flatcontainer crate in /repo (path dependency, rebuilt from the working tree).
mod alloc;
mod catalogue;
mod dict;
mod drive;
mod gen;
mod huff;
mod ic;
mod interp;
mod judge;
mod mg;
mod slot;
mod stack;
mod util;
mod val;

#[global_allocator]
static GLOBAL: alloc::Counting = alloc::Counting;

fn arg(args: &[String], name: &str) -> Option<String> {
    args.iter().position(|a| a == name).and_then(|i| args.get(i + 1).cloned())
}

fn main() {
    let args: Vec<String> = std::env::args().collect();
    let cmd = args.get(1).map(String::as_str).unwrap_or("");
    match cmd {
        "ic-replay" => {
            let file = args.get(2).expect("edge file");
            let prop = arg(&args, "--prop").expect("--prop");
            let out = arg(&args, "--out").expect("--out");
            ic::cmd_replay(file, &prop, &out);
        }
        "ic-walk" => {
            let seed: u64 = arg(&args, "--seed").and_then(|s| s.parse().ok()).unwrap_or(1);
            let runs: usize = arg(&args, "--runs").and_then(|s| s.parse().ok()).unwrap_or(12);
            let len: usize = arg(&args, "--len").and_then(|s| s.parse().ok()).unwrap_or(3000);
            let out = arg(&args, "--out").expect("--out");
            ic::cmd_walk(seed, runs, len, &out);
        }
        "replay" => {
            let file = args.get(2).expect("edge file");
            let prop = arg(&args, "--prop").expect("--prop");
            let out = arg(&args, "--out").expect("--out");
            judge::cmd_replay(file, &prop, &out);
        }
        "stack-replay" => {
            let file = args.get(2).expect("edge file");
            let prop = arg(&args, "--prop").expect("--prop");
            let out = arg(&args, "--out").expect("--out");
            stack::cmd_replay(file, &prop, &out);
        }
        "stacks" => println!("{}", serde_json::to_string_pretty(&stack::stacks_json()).unwrap()),
        "huff-run" => {
            let file = args.get(2).expect("scenario file");
            let ty = arg(&args, "--ty").unwrap_or("u8".into());
            let out = arg(&args, "--out").expect("--out");
            let n = arg(&args, "--nslots").and_then(|x| x.parse().ok()).unwrap_or(2);
            huff::cmd_run(file, &ty, &out, n);
        }
        "huffcols-run" => {
            let seed = arg(&args, "--seed").and_then(|x| x.parse().ok()).unwrap_or(1);
            let runs = arg(&args, "--runs").and_then(|x| x.parse().ok()).unwrap_or(100);
            let out = arg(&args, "--out").expect("--out");
            huff::cmd_cols(seed, runs, &out, args.iter().any(|a| a == "--as-stack"));
        }
        "huff-gen" => {
            let seed = arg(&args, "--seed").and_then(|x| x.parse().ok()).unwrap_or(1);
            let count = arg(&args, "--count").and_then(|x| x.parse().ok()).unwrap_or(100);
            let ty = arg(&args, "--ty").unwrap_or("u8".into());
            let out = arg(&args, "--out").expect("--out");
            if arg(&args, "--mode").as_deref() == Some("cmp") {
                huff::cmd_gen_cmp(seed, count, &out, &ty);
            } else {
                huff::cmd_gen(seed, count, &out, &ty, args.iter().any(|a| a == "--small"));
            }
        }
        "dict-run" => {
            let file = args.get(2).expect("scenario file");
            let out = arg(&args, "--out").expect("--out");
            let n = arg(&args, "--nslots").and_then(|x| x.parse().ok()).unwrap_or(2);
            dict::cmd_run(file, &out, n, args.iter().any(|a| a == "--as-str"), args.iter().any(|a| a == "--as-stack"));
        }
        "dict-gen" => {
            let seed = arg(&args, "--seed").and_then(|x| x.parse().ok()).unwrap_or(1);
            let count = arg(&args, "--count").and_then(|x| x.parse().ok()).unwrap_or(100);
            let out = arg(&args, "--out").expect("--out");
            if args.iter().any(|a| a == "--utf8") {
                dict::cmd_gen_utf8(seed, count, &out);
            } else {
                dict::cmd_gen(seed, count, &out);
            }
        }
        "alloc-run" => {
            let seed = arg(&args, "--seed").and_then(|x| x.parse().ok()).unwrap_or(1);
            let runs = arg(&args, "--runs").and_then(|x| x.parse().ok()).unwrap_or(6);
            let growth = arg(&args, "--growth").and_then(|x| x.parse().ok()).unwrap_or(10);
            let out = arg(&args, "--out").expect("--out");
            alloc::cmd_run(seed, runs, growth, &out);
        }
        "drive" => {
            let seed = arg(&args, "--seed").and_then(|x| x.parse().ok()).unwrap_or(1);
            let runs = arg(&args, "--runs").and_then(|x| x.parse().ok()).unwrap_or(4);
            let steps = arg(&args, "--steps").and_then(|x| x.parse().ok()).unwrap_or(80);
            let long = arg(&args, "--long").and_then(|x| x.parse().ok()).unwrap_or(2000);
            let out = arg(&args, "--out").expect("--out");
            let only = arg(&args, "--subjects").map(|s| s.split(',').map(|x| x.to_string()).collect());
            drive::cmd_drive(seed, runs, steps, long, &out, only);
        }
        "mg-run" => {
            let seed = arg(&args, "--seed").and_then(|x| x.parse().ok()).unwrap_or(1);
            let runs = arg(&args, "--runs").and_then(|x| x.parse().ok()).unwrap_or(100);
            let out = arg(&args, "--out").expect("--out");
            mg::cmd_run(seed, runs, &out);
        }
        "catalogue" => println!("{}", serde_json::to_string_pretty(&catalogue::catalogue_json()).unwrap()),
        "profile" => println!("{}", util::profile_name()),
        _ => {
            eprintln!("usage: fcverif <ic-replay|...>");
            std::process::exit(2);
        }
    }
}
