fn main() { println!("hello"); }
