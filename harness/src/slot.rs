//! A region under test together with the indices it has issued since its last clear,
//! behind an object-safe interface so that one interpreter drives every catalogued type.
use crate::val::*;
use flatcontainer::{IntoOwned, Region};
use serde_json::{json, Value};
use std::any::Any;
use std::rc::Rc;

pub type PushFn<R> = fn(&mut R, &<R as Region>::Owned) -> <R as Region>::Index;
pub type ReserveFn<R> = fn(&mut R, &[<R as Region>::Owned]);

/// Per-type capabilities, written as monomorphic closures in the catalogue macro table.
pub struct Caps<R: Region> {
    pub forms: Vec<(&'static str, PushFn<R>)>,
    pub reserve_forms: Vec<(&'static str, ReserveFn<R>)>,
    pub clone: Option<fn(&R) -> R>,
    pub clone_from: Option<fn(&mut R, &R)>,
    pub serde: Option<fn(&R) -> Result<R, String>>,
    /// push the region-backed read item `src.index(i)` into `dst`
    pub push_item: Option<fn(&mut R, &R, <R as Region>::Index) -> <R as Region>::Index>,
    /// push `borrow_as(&owned)` (the owned-borrowed representation) into `dst`
    pub push_borrowed: Option<fn(&mut R, &<R as Region>::Owned) -> <R as Region>::Index>,
    /// positional accessor of the region-backed read item
    pub get: Option<fn(&R, <R as Region>::Index, usize) -> Value>,
    /// positional accessor of the owned-borrowed read item
    pub get_borrowed: Option<fn(&<R as Region>::Owned, usize) -> Value>,
    /// eq / partial_cmp / cmp between two region-backed items
    pub cmp: Option<fn(&R, <R as Region>::Index, &R, <R as Region>::Index) -> Value>,
    /// the same between a region-backed item and an owned-borrowed one (both directions)
    pub cmp_borrowed: Option<fn(&R, <R as Region>::Index, &<R as Region>::Owned) -> Value>,
    pub has_heap: bool,
    pub has_reserve_regions: bool,
    /// the owned value is a sequence (slice / columns / owned): clone_onto is exercised on every read
    /// against an empty, a shorter and a longer target built from the value itself
    pub seq_owned: bool,
}

impl<R: Region> Default for Caps<R> {
    fn default() -> Self {
        Caps {
            forms: vec![],
            reserve_forms: vec![],
            clone: None,
            clone_from: None,
            serde: None,
            push_item: None,
            push_borrowed: None,
            get: None,
            get_borrowed: None,
            cmp: None,
            cmp_borrowed: None,
            has_heap: true,
            has_reserve_regions: true,
            seq_owned: false,
        }
    }
}

pub struct Slot<R: Region> {
    pub region: R,
    pub ids: Vec<R::Index>,
    pub caps: Rc<Caps<R>>,
}

pub trait SlotT: Any {
    fn as_any(&self) -> &dyn Any;
    fn fresh(&self) -> Box<dyn SlotT>;
    fn push(&mut self, form: usize, v: &Value) -> Value;
    /// push and report how often the allocator was called inside the region's push itself
    fn push_measured(&mut self, form: usize, v: &Value) -> (Value, u64);
    fn n(&self) -> usize;
    fn idx(&self, id: usize) -> Value;
    fn read(&self, id: usize) -> Value;
    fn clear(&mut self);
    fn heap(&self) -> Option<Vec<(usize, usize)>>;
    fn dup(&self) -> Option<Box<dyn SlotT>>;
    fn dup_from(&mut self, src: &dyn SlotT) -> bool;
    fn serde_copy(&self) -> Option<Result<Box<dyn SlotT>, String>>;
    fn merged(&self, srcs: &[&dyn SlotT]) -> Box<dyn SlotT>;
    fn reserve_regions(&mut self, srcs: &[&dyn SlotT]) -> bool;
    fn reserve_items(&mut self, form: usize, vs: &[Value]) -> bool;
    fn push_from(&mut self, src: &dyn SlotT, id: usize, rep: &str) -> Option<Value>;
    fn get(&self, id: usize, pos: usize, rep: &str) -> Option<Value>;
    fn compare(&self, id: usize, other: &dyn SlotT, id2: usize, rep: &str) -> Option<Value>;
    fn clone_onto(&self, id: usize, target: &Value) -> Value;
    fn borrow_roundtrip(&self, id: usize) -> Value;
}

impl<R> Slot<R>
where
    R: Region + 'static,
    R::Owned: Val,
    R::Index: IdxJson,
    for<'a> R::ReadItem<'a>: Render,
{
    pub fn new(caps: Rc<Caps<R>>) -> Self {
        Slot { region: R::default(), ids: vec![], caps }
    }
    fn other<'a>(&self, s: &'a dyn SlotT) -> &'a Slot<R> {
        s.as_any().downcast_ref::<Slot<R>>().expect("slots of one scenario share a type")
    }
}

impl<R> SlotT for Slot<R>
where
    R: Region + 'static,
    R::Owned: Val,
    R::Index: IdxJson,
    for<'a> R::ReadItem<'a>: Render,
{
    fn as_any(&self) -> &dyn Any {
        self
    }
    fn fresh(&self) -> Box<dyn SlotT> {
        Box::new(Slot::<R>::new(self.caps.clone()))
    }
    fn push(&mut self, form: usize, v: &Value) -> Value {
        let owned = R::Owned::from_json(v);
        let f = self.caps.forms[form].1;
        let idx = f(&mut self.region, &owned);
        self.ids.push(idx);
        idx.idx_json()
    }
    fn push_measured(&mut self, form: usize, v: &Value) -> (Value, u64) {
        let owned = R::Owned::from_json(v);
        let f = self.caps.forms[form].1;
        self.ids.reserve(1);
        crate::alloc::window_take();
        let idx = f(&mut self.region, &owned);
        let n = crate::alloc::window_take();
        self.ids.push(idx);
        (idx.idx_json(), n)
    }
    fn n(&self) -> usize {
        self.ids.len()
    }
    fn idx(&self, id: usize) -> Value {
        self.ids[id].idx_json()
    }
    fn read(&self, id: usize) -> Value {
        let idx = self.ids[id];
        let direct = self.region.index(idx).render();
        let reborrowed = R::reborrow(self.region.index(idx)).render();
        let owned = self.region.index(idx).into_owned().to_json();
        if direct != reborrowed {
            return inconsistent("reborrow(x) differs from x", json!([direct, reborrowed]));
        }
        if direct != owned {
            return inconsistent("into_owned(x) differs from x", json!([direct, owned]));
        }
        if self.caps.seq_owned {
            if let Some(arr) = direct.as_array() {
                // IntoOwned::clone_onto must leave the target equal to the item whatever it held before
                let mut longer = arr.clone();
                longer.extend(arr.iter().cloned());
                if let Some(first) = arr.first() {
                    longer.push(first.clone());
                }
                let shorter: Vec<Value> = arr.iter().take(arr.len() / 2).cloned().collect();
                for target in [Value::Array(vec![]), Value::Array(shorter), Value::Array(longer)] {
                    let mut t = R::Owned::from_json(&target);
                    self.region.index(idx).clone_onto(&mut t);
                    let got = t.to_json();
                    if got != direct {
                        return inconsistent("clone_onto(x, t) leaves t different from x", json!({"x": direct, "t_before": target, "t_after": got}));
                    }
                }
            }
        }
        direct
    }
    fn clear(&mut self) {
        self.region.clear();
        self.ids.clear();
    }
    fn heap(&self) -> Option<Vec<(usize, usize)>> {
        if !self.caps.has_heap {
            return None;
        }
        let mut out = vec![];
        self.region.heap_size(|u, c| out.push((u, c)));
        Some(out)
    }
    fn dup(&self) -> Option<Box<dyn SlotT>> {
        let f = self.caps.clone?;
        Some(Box::new(Slot { region: f(&self.region), ids: self.ids.clone(), caps: self.caps.clone() }))
    }
    fn dup_from(&mut self, src: &dyn SlotT) -> bool {
        let Some(f) = self.caps.clone_from else { return false };
        let src = self.other(src);
        f(&mut self.region, &src.region);
        self.ids = src.ids.clone();
        true
    }
    fn serde_copy(&self) -> Option<Result<Box<dyn SlotT>, String>> {
        let f = self.caps.serde?;
        Some(f(&self.region).map(|region| {
            Box::new(Slot { region, ids: self.ids.clone(), caps: self.caps.clone() }) as Box<dyn SlotT>
        }))
    }
    fn merged(&self, srcs: &[&dyn SlotT]) -> Box<dyn SlotT> {
        let regions: Vec<&R> = srcs.iter().map(|s| &self.other(*s).region).collect();
        let region = R::merge_regions(regions.iter().copied());
        Box::new(Slot { region, ids: vec![], caps: self.caps.clone() })
    }
    fn reserve_regions(&mut self, srcs: &[&dyn SlotT]) -> bool {
        if !self.caps.has_reserve_regions {
            return false;
        }
        let regions: Vec<&R> = srcs.iter().map(|s| &self.other(*s).region).collect();
        self.region.reserve_regions(regions.iter().copied());
        true
    }
    fn reserve_items(&mut self, form: usize, vs: &[Value]) -> bool {
        let Some((_, f)) = self.caps.reserve_forms.get(form) else { return false };
        let owned: Vec<R::Owned> = vs.iter().map(R::Owned::from_json).collect();
        f(&mut self.region, &owned);
        true
    }
    fn push_from(&mut self, src: &dyn SlotT, id: usize, rep: &str) -> Option<Value> {
        let src = self.other(src);
        let idx = src.ids[id];
        let new = match rep {
            "region" => (self.caps.push_item?)(&mut self.region, &src.region, idx),
            _ => {
                let owned = src.region.index(idx).into_owned();
                (self.caps.push_borrowed?)(&mut self.region, &owned)
            }
        };
        self.ids.push(new);
        Some(new.idx_json())
    }
    fn get(&self, id: usize, pos: usize, rep: &str) -> Option<Value> {
        let idx = self.ids[id];
        match rep {
            "region" => Some((self.caps.get?)(&self.region, idx, pos)),
            _ => {
                let owned = self.region.index(idx).into_owned();
                Some((self.caps.get_borrowed?)(&owned, pos))
            }
        }
    }
    fn compare(&self, id: usize, other: &dyn SlotT, id2: usize, rep: &str) -> Option<Value> {
        let other = self.other(other);
        match rep {
            "region" => Some((self.caps.cmp?)(&self.region, self.ids[id], &other.region, other.ids[id2])),
            _ => {
                let owned = other.region.index(other.ids[id2]).into_owned();
                Some((self.caps.cmp_borrowed?)(&self.region, self.ids[id], &owned))
            }
        }
    }
    fn clone_onto(&self, id: usize, target: &Value) -> Value {
        let mut t = R::Owned::from_json(target);
        self.region.index(self.ids[id]).clone_onto(&mut t);
        t.to_json()
    }
    fn borrow_roundtrip(&self, id: usize) -> Value {
        let owned = self.region.index(self.ids[id]).into_owned();
        let b = <R::ReadItem<'_> as IntoOwned>::borrow_as(&owned);
        b.render()
    }
}

/// One catalogue entry: a name, the shape the spec uses for it, and a factory.
pub struct Subject {
    pub name: &'static str,
    pub shape: Value,
    pub forms: Vec<&'static str>,
    pub reserve_forms: Vec<&'static str>,
    pub caps: Value,
    pub make: Box<dyn Fn() -> Box<dyn SlotT>>,
}
