//! CodecRegion<DictionaryCodec> scenarios -> ndjson trace for TraceDict.tla.
use crate::util::*;
use flatcontainer::impls::codec::{CodecRegion, DictionaryCodec};
use flatcontainer::{Push, Region};
use rand::rngs::StdRng;
use rand::{Rng, SeedableRng};
use serde_json::{json, Value};
use std::io::Write;

type R = CodecRegion<DictionaryCodec>;
type SR = flatcontainer::StringRegion<CodecRegion<DictionaryCodec>>;

/// the object under test: bytes in, bytes out. Three flavours: the bare coded region, a string region
/// over it (through `&str`), and a FlatStack over it (copy / get / merge_capacity / clear).
pub trait DictSubject: Default {
    fn push_bytes(&mut self, b: &[u8]) -> (usize, usize);
    /// the bytes handed out, and whether they are valid UTF-8 where a `&str` was handed out
    fn read_bytes(&self, idx: (usize, usize)) -> (Vec<u8>, bool);
    fn merged(srcs: &[&Self]) -> Self;
    fn wipe(&mut self);
    fn used_bytes(&self) -> usize;
    /// reserve_regions over the given sources (false: the flavour offers no such call)
    fn reserve_from(&mut self, srcs: &[&Self]) -> bool;
}
impl DictSubject for R {
    fn push_bytes(&mut self, b: &[u8]) -> (usize, usize) {
        self.push(b)
    }
    fn read_bytes(&self, idx: (usize, usize)) -> (Vec<u8>, bool) {
        (self.index(idx).to_vec(), true)
    }
    fn merged(srcs: &[&Self]) -> Self {
        R::merge_regions(srcs.iter().map(|r| *r))
    }
    fn reserve_from(&mut self, srcs: &[&Self]) -> bool {
        self.reserve_regions(srcs.iter().map(|r| *r));
        true
    }
    fn wipe(&mut self) {
        self.clear()
    }
    fn used_bytes(&self) -> usize {
        let mut u = 0;
        self.heap_size(|a, _| u += a);
        u
    }
}
impl DictSubject for SR {
    fn push_bytes(&mut self, b: &[u8]) -> (usize, usize) {
        self.push(std::str::from_utf8(b).expect("string scenarios carry valid UTF-8"))
    }
    fn read_bytes(&self, idx: (usize, usize)) -> (Vec<u8>, bool) {
        let s: &str = self.index(idx);
        let b = s.as_bytes().to_vec();
        let ok = std::str::from_utf8(&b).is_ok();
        (b, ok)
    }
    fn merged(srcs: &[&Self]) -> Self {
        SR::merge_regions(srcs.iter().map(|r| *r))
    }
    fn reserve_from(&mut self, srcs: &[&Self]) -> bool {
        self.reserve_regions(srcs.iter().map(|r| *r));
        true
    }
    fn wipe(&mut self) {
        self.clear()
    }
    fn used_bytes(&self) -> usize {
        let mut u = 0;
        self.heap_size(|a, _| u += a);
        u
    }
}
/// FlatStack<CodecRegion<DictionaryCodec>>: the "index" of an item is its position in the stack
type FS = flatcontainer::FlatStack<R>;
impl DictSubject for FS {
    fn push_bytes(&mut self, b: &[u8]) -> (usize, usize) {
        self.copy(b);
        (self.len() - 1, 0)
    }
    fn read_bytes(&self, idx: (usize, usize)) -> (Vec<u8>, bool) {
        (self.get(idx.0).to_vec(), true)
    }
    fn merged(srcs: &[&Self]) -> Self {
        FS::merge_capacity(srcs.iter().map(|r| *r))
    }
    fn reserve_from(&mut self, _srcs: &[&Self]) -> bool {
        // a stack's region is private; FlatStack::reserve_regions wants regions
        false
    }
    fn wipe(&mut self) {
        self.clear()
    }
    fn used_bytes(&self) -> usize {
        // only the region's share: the stack's index vector is not stored bytes of the codec
        let mut pairs = vec![];
        self.heap_size(|a, _| pairs.push(a));
        let idx_bytes = self.len() * std::mem::size_of::<(usize, usize)>();
        pairs.iter().sum::<usize>().saturating_sub(idx_bytes)
    }
}

struct DSlot<R: DictSubject> {
    r: R,
    ids: Vec<(usize, usize)>,
    first_reads: Vec<Value>,
    dead: bool,
}

fn used<R: DictSubject>(r: &R) -> usize {
    r.used_bytes()
}

fn bytes_of(v: &Value) -> Vec<u8> {
    v.as_array().map(|a| a.iter().map(|x| x.as_u64().unwrap() as u8).collect()).unwrap_or_default()
}

fn read<R: DictSubject>(r: &R, idx: (usize, usize)) -> Value {
    match guarded(|| r.read_bytes(idx)) {
        Ok((b, true)) => json!(b),
        Ok((b, false)) => json!({"INVALID_UTF8": b}),
        Err(m) => json!({"PANIC": m}),
    }
}

pub fn run_scenario<R: DictSubject, W: Write>(run: u64, ops: &[Value], nslots: usize, out: &mut W) {
    let mut slots: Vec<DSlot<R>> = (0..nslots).map(|_| DSlot { r: R::default(), ids: vec![], first_reads: vec![], dead: false }).collect();
    writeln!(out, "{}", json!({"ev": "reset", "run": run, "nslots": nslots})).unwrap();
    let mut seq = 0u64;
    for op in ops {
        seq += 1;
        match op["op"].as_str().unwrap_or("") {
            "push" => {
                let s = op["s"].as_u64().unwrap() as usize - 1;
                if slots[s].dead {
                    continue;
                }
                let v = bytes_of(&op["v"]);
                let reps = op["n"].as_u64().unwrap_or(1);
                for _ in 0..reps {
                    let before = used(&slots[s].r);
                    let res = {
                        let r = &mut slots[s].r;
                        guarded(|| r.push_bytes(v.as_slice()))
                    };
                    match res {
                        Err(m) => {
                            slots[s].dead = true;
                            writeln!(out, "{}", json!({"ev": "push", "run": run, "seq": seq, "s": s + 1, "v": v, "panic": true, "msg": m.chars().take(80).collect::<String>()})).unwrap();
                            break;
                        }
                        Ok(idx) => {
                            let sl = &mut slots[s];
                            sl.ids.push(idx);
                            let rd = read(&sl.r, idx);
                            let mut stable = true;
                            let mut changed = String::new();
                            // re-read earlier items (all of them while few, a sample when many)
                            let n = sl.first_reads.len();
                            let step = if n > 64 { n / 32 } else { 1 };
                            let mut k = 0;
                            while k < n {
                                let now = read(&sl.r, sl.ids[k]);
                                if now != sl.first_reads[k] {
                                    stable = false;
                                    changed = format!("id {k}: first {} now {}", sl.first_reads[k], now);
                                    break;
                                }
                                k += step;
                            }
                            sl.first_reads.push(rd.clone());
                            let (rv, re) = if rd.is_array() { (rd.clone(), String::new()) } else { (json!([]), rd.to_string()) };
                            let after = used(&sl.r);
                            writeln!(out, "{}", json!({"ev": "push", "run": run, "seq": seq, "s": s + 1, "v": v, "panic": false,
                                "read": rv, "read_err": re, "stable": stable, "changed": changed, "delta": after - before})).unwrap();
                        }
                    }
                }
            }
            "merge" => {
                let d = op["d"].as_u64().unwrap() as usize - 1;
                let srcs: Vec<usize> = op["srcs"].as_array().map(|a| a.iter().map(|x| x.as_u64().unwrap() as usize - 1).collect()).unwrap_or_default();
                if srcs.iter().any(|&x| slots[x].dead) {
                    continue;
                }
                let merged = {
                    let refs: Vec<&R> = srcs.iter().map(|&x| &slots[x].r).collect();
                    guarded(|| R::merged(refs.as_slice()))
                };
                match merged {
                    Err(m) => {
                        slots[d].dead = true;
                        writeln!(out, "{}", json!({"ev": "merge", "run": run, "seq": seq, "d": d + 1, "srcs": op["srcs"], "panic": true, "msg": m.chars().take(80).collect::<String>()})).unwrap();
                    }
                    Ok(r) => {
                        slots[d] = DSlot { r, ids: vec![], first_reads: vec![], dead: false };
                        writeln!(out, "{}", json!({"ev": "merge", "run": run, "seq": seq, "d": d + 1, "srcs": op["srcs"], "panic": false})).unwrap();
                    }
                }
            }
            "reserve" => {
                let s = op["s"].as_u64().unwrap() as usize - 1;
                let srcs: Vec<usize> = op["srcs"].as_array().map(|a| a.iter().map(|x| x.as_u64().unwrap() as usize - 1).collect()).unwrap_or_default();
                if slots[s].dead || srcs.iter().any(|&x| slots[x].dead) {
                    continue;
                }
                let res = {
                    // sources by reference; when the target is among them, it is left out (no aliasing in safe Rust)
                    let (tgt, others): (Vec<_>, Vec<_>) = slots.iter_mut().enumerate().partition(|(i, _)| *i == s);
                    let refs: Vec<&R> = others.iter().filter(|(i, _)| srcs.contains(i)).map(|(_, sl)| &sl.r).collect();
                    let t = tgt.into_iter().next().unwrap().1;
                    guarded(|| t.r.reserve_from(refs.as_slice()))
                };
                match res {
                    Err(m) => {
                        slots[s].dead = true;
                        writeln!(out, "{}", json!({"ev": "reserve", "run": run, "seq": seq, "s": s + 1, "srcs": op["srcs"], "panic": true, "stable": true, "msg": m.chars().take(80).collect::<String>()})).unwrap();
                    }
                    Ok(false) => {}
                    Ok(true) => {
                        let sl = &slots[s];
                        let stable = (0..sl.ids.len()).all(|k| read(&sl.r, sl.ids[k]) == sl.first_reads[k]);
                        writeln!(out, "{}", json!({"ev": "reserve", "run": run, "seq": seq, "s": s + 1, "srcs": op["srcs"], "panic": false, "stable": stable})).unwrap();
                    }
                }
            }
            "clear" => {
                let s = op["s"].as_u64().unwrap() as usize - 1;
                if slots[s].dead {
                    continue;
                }
                let res = {
                    let r = &mut slots[s].r;
                    guarded(|| r.wipe())
                };
                slots[s].ids.clear();
                slots[s].first_reads.clear();
                if res.is_err() {
                    slots[s].dead = true;
                }
                writeln!(out, "{}", json!({"ev": "clear", "run": run, "seq": seq, "s": s + 1, "panic": res.is_err()})).unwrap();
            }
            o => {
                eprintln!("TOOL-ERROR: unknown dictionary op {o}");
                std::process::exit(2)
            }
        }
    }
}

pub fn cmd_run(file: &str, out: &str, nslots: usize, as_str: bool, as_stack: bool) {
    quiet_panics();
    let f = std::fs::File::create(out).expect("create trace");
    let mut w = std::io::BufWriter::new(f);
    let mut run = 0u64;
    let text = std::fs::read_to_string(file).expect("read scenarios");
    for line in text.lines() {
        let scn: Value = if line.starts_with("<<\"SCN\"") {
            let lit = line.trim_end().strip_prefix("<<\"SCN\", ").and_then(|r| r.strip_suffix(">>")).expect("scn line");
            let inner: String = serde_json::from_str(lit).expect("scn literal");
            serde_json::from_str(&inner).expect("scn json")
        } else if line.starts_with('{') {
            serde_json::from_str(line).expect("scenario json")
        } else {
            continue;
        };
        run += 1;
        let ops = scn["ops"].as_array().cloned().unwrap_or_default();
        let n = scn["nslots"].as_u64().map(|x| x as usize).unwrap_or(nslots);
        if as_stack {
            run_scenario::<FS, _>(run, &ops, n, &mut w);
        } else if as_str {
            run_scenario::<SR, _>(run, &ops, n, &mut w);
        } else {
            run_scenario::<R, _>(run, &ops, n, &mut w);
        }
    }
    w.flush().unwrap();
    eprintln!("dict-run: {run} scenarios");
}

/// Random scenarios: all 256 first bytes, dictionary entries vs. prefixes vs. tags, empty strings,
/// several sources, generations, and more than 1024 distinct strings with one dominant string.
/// String scenarios (C04): vocabularies of valid UTF-8 strings whose first bytes spread over the
/// ASCII and multi-byte lead-byte ranges, many dictionary entries, neighbours that differ in one scalar.
pub fn cmd_gen_utf8(seed: u64, count: usize, out: &str) {
    let mut rng = StdRng::seed_from_u64(seed);
    let mut f = std::io::BufWriter::new(std::fs::File::create(out).expect("create"));
    let leads = [" ", "0", "a", "z", "\u{1}", "\u{7f}", "ä", "ß", "€", "한", "😀", "\u{80}", "\u{10ffff}"];
    for k in 0..count {
        let nvoc = [1usize, 3, 12, 40, 130, 200, 300][k % 7];
        let nsrc = 1 + k % 3;
        let mut voc: Vec<String> = vec![];
        while voc.len() < nvoc {
            let mut s = String::from(leads[rng.gen_range(0..leads.len())]);
            s.push_str(&format!("größe-{}", voc.len()));
            if rng.gen_bool(0.3) {
                s.push('€');
            }
            if !voc.contains(&s) {
                voc.push(s);
            }
        }
        let mut ops: Vec<Value> = vec![];
        for (i, s) in voc.iter().enumerate() {
            ops.push(json!({"op": "push", "s": 1 + (i % nsrc), "v": s.as_bytes(), "n": 1 + (i % 3)}));
        }
        if k % 2 == 0 {
            // the empty string is a string too: often, so that it would rank high if it were counted
            ops.push(json!({"op": "push", "s": 1, "v": [], "n": 4}));
        }
        ops.push(json!({"op": "merge", "d": 5, "srcs": (1..=nsrc).collect::<Vec<_>>()}));
        let mut order: Vec<usize> = (0..voc.len()).collect();
        for i in (1..order.len()).rev() {
            order.swap(i, rng.gen_range(0..=i));
        }
        for &i in order.iter().take(60) {
            ops.push(json!({"op": "push", "s": 5, "v": voc[i].as_bytes(), "n": 1}));
        }
        ops.push(json!({"op": "push", "s": 5, "v": [], "n": 1}));
        ops.push(json!({"op": "push", "s": 5, "v": "neu-€".as_bytes(), "n": 1}));
        ops.push(json!({"op": "merge", "d": 4, "srcs": [5]}));
        for &i in order.iter().take(10) {
            ops.push(json!({"op": "push", "s": 4, "v": voc[i].as_bytes(), "n": 1}));
        }
        ops.push(json!({"op": "push", "s": 4, "v": [], "n": 2}));
        ops.push(json!({"op": "push", "s": 5, "v": [], "n": 1}));
        writeln!(f, "{}", json!({"nslots": 5, "ops": ops})).unwrap();
    }
}

pub fn cmd_gen(seed: u64, count: usize, out: &str) {
    let mut rng = StdRng::seed_from_u64(seed);
    let mut f = std::io::BufWriter::new(std::fs::File::create(out).expect("create"));
    for k in 0..count {
        let mut ops: Vec<Value> = vec![];
        let nsrc = 1 + (k % 4);
        // vocabulary of the sources
        let kind = k % 6;
        let nvoc = match kind {
            0 => 1,
            1 => rng.gen_range(2..6),
            2 => rng.gen_range(6..40),
            3 => 300, // more strings than tags: only the most frequent are coded
            4 => 1500, // crosses the heavy-hitter summary's compaction
            _ => rng.gen_range(1..10),
        };
        // first bytes: sometimes avoid small bytes so that tags 0.. are free, sometimes use all 256
        let first_lo: u8 = if rng.gen_bool(0.7) { 32 } else { 0 };
        let mut voc: Vec<Vec<u8>> = vec![];
        while voc.len() < nvoc {
            let len = rng.gen_range(1..7);
            let mut s: Vec<u8> = (0..len).map(|_| rng.gen_range(0..=255u8)).collect();
            s[0] = if first_lo == 0 && nvoc >= 256 { (voc.len() % 256) as u8 } else { rng.gen_range(first_lo..=255u8) };
            if nvoc > 1000 {
                s = format!("k{:05}", voc.len()).into_bytes();
            }
            if !voc.contains(&s) {
                voc.push(s);
            }
        }
        let dominant = voc[0].clone();
        // source pushes: skewed so that the ranking is mostly strict, with occasional ties
        for (i, s) in voc.iter().enumerate() {
            let reps = if i == 0 { if nvoc > 1000 { 2500 } else { rng.gen_range(3..9) } } else if nvoc > 200 { 1 } else { 1 + (i % 3) };
            let slot = 1 + (i % nsrc);
            ops.push(json!({"op": "push", "s": slot, "v": s, "n": reps}));
        }
        if rng.gen_bool(0.3) {
            ops.push(json!({"op": "push", "s": 1, "v": [], "n": 1}));
        }
        if k % 7 == 3 {
            // unbalanced sources: the first one saw (almost) nothing, a later one many frequent strings; all of
            // them fit the dictionary and must be coded whatever the order of the sources
            let mut ops2: Vec<Value> = vec![json!({"op": "push", "s": 1, "v": [b'x'], "n": 1})];
            let many: Vec<Vec<u8>> = (0..40u32).map(|i| format!("word-{i:02}-payload").into_bytes()).collect();
            for w in &many {
                ops2.push(json!({"op": "push", "s": 2, "v": w, "n": 5}));
            }
            ops2.push(json!({"op": "merge", "d": 5, "srcs": [1, 2]}));
            for w in &many {
                ops2.push(json!({"op": "push", "s": 5, "v": w, "n": 1}));
            }
            ops2.push(json!({"op": "merge", "d": 4, "srcs": [3, 1, 2]}));
            for w in many.iter().take(10) {
                ops2.push(json!({"op": "push", "s": 4, "v": w, "n": 1}));
            }
            writeln!(f, "{}", json!({"nslots": 5, "ops": ops2})).unwrap();
            continue;
        }
        let srcs: Vec<usize> = (1..=nsrc).collect();
        ops.push(json!({"op": "merge", "d": 5, "srcs": srcs}));
        // pushes into the merged region
        ops.push(json!({"op": "push", "s": 5, "v": dominant, "n": 2}));
        // (the demotion scenario must not lose its region to a legitimate refusal: no risky pushes there)
        for _ in 0..(if k % 5 == 2 { 0 } else { rng.gen_range(3..12) }) {
            let choice = rng.gen_range(0..8);
            let v: Vec<u8> = match choice {
                0 => vec![],
                1 => voc[rng.gen_range(0..voc.len())].clone(),
                2 => {
                    // prefixed by a dictionary entry
                    let mut s = voc[rng.gen_range(0..voc.len())].clone();
                    s.push(rng.gen_range(0..=255));
                    s
                }
                3 => vec![rng.gen_range(0..=255u8)], // a single byte: possibly a tag
                4 => {
                    // starts with a small byte: a tag if the sources never saw it as a first byte
                    let mut s = vec![rng.gen_range(0..4u8)];
                    s.extend((0..rng.gen_range(0..4)).map(|_| rng.gen_range(0..=255u8)));
                    s
                }
                5 => voc[rng.gen_range(0..voc.len().min(8))].clone(),
                _ => (0..rng.gen_range(1..6)).map(|_| rng.gen_range(first_lo..=255u8)).collect(),
            };
            ops.push(json!({"op": "push", "s": 5, "v": v, "n": 1}));
        }
        if k % 5 == 2 {
            // demotion: a string coded in this generation is outnumbered by more than 256 others, so the next
            // generation stores it literally again; its first byte was seen here and may not become a tag
            let x = dominant.clone();
            for i in 0..300u32 {
                let mut s = vec![b'q' + (i % 5) as u8];
                s.extend(format!("{i:04}").into_bytes());
                ops.push(json!({"op": "push", "s": 5, "v": s, "n": 3}));
            }
            ops.push(json!({"op": "merge", "d": 3, "srcs": [5]}));
            ops.push(json!({"op": "push", "s": 3, "v": x, "n": 2}));
            ops.push(json!({"op": "push", "s": 3, "v": [b'q', b'0', b'0', b'0', b'0'], "n": 1}));
        }
        if rng.gen_bool(0.4) {
            // pre-sizing a populated, coded region from regions with other statistics: nothing may change, and it
            // continues to code exactly what its own dictionary holds
            ops.push(json!({"op": "reserve", "s": 5, "srcs": [1 + rng.gen_range(0..nsrc)]}));
            ops.push(json!({"op": "push", "s": 5, "v": dominant, "n": 1}));
            ops.push(json!({"op": "push", "s": 5, "v": voc[voc.len() - 1], "n": 1}));
            ops.push(json!({"op": "reserve", "s": 1, "srcs": [5]}));
            ops.push(json!({"op": "push", "s": 1, "v": dominant, "n": 1}));
        }
        if rng.gen_bool(0.5) {
            // next generation from the merged region (its own statistics)
            ops.push(json!({"op": "merge", "d": 4, "srcs": [5]}));
            ops.push(json!({"op": "push", "s": 4, "v": dominant, "n": 1}));
            ops.push(json!({"op": "push", "s": 4, "v": [], "n": 1}));
            ops.push(json!({"op": "clear", "s": 4}));
            ops.push(json!({"op": "push", "s": 4, "v": [0, 1, 2], "n": 1}));
        }
        writeln!(f, "{}", json!({"nslots": 5, "ops": ops})).unwrap();
    }
}
