//! impl -> spec: seeded random histories on the real regions over the real value domains,
//! recorded as an ndjson trace for TraceContract.tla (the layout-independent region contract).
//!
//! The recorder keeps, per slot, the value pushed for every live index and the rendering it
//! produced when first read; it logs facts (canonical renderings as strings, numeric indices,
//! whether the returned index equals the previous one, byte counts). What those facts must be is
//! decided by the specification.
use crate::catalogue;
use crate::gen::*;
use crate::slot::SlotT;
use crate::util::*;
use rand::rngs::StdRng;
use rand::{Rng, SeedableRng};
use serde_json::{json, Value};
use std::io::Write;

struct Tracked {
    slot: Box<dyn SlotT>,
    vals: Vec<Value>,        // ground truth: the value pushed for each live id
    first: Vec<String>,      // canonical rendering when first read
    dead: bool,
    /// after clear(): a brand-new region of the same type, fed the same pushes (C08: a cleared region behaves
    /// like a fresh one - same indices, same stored bytes); dropped by any other operation on the slot
    twin: Option<Box<dyn SlotT>>,
}

fn canon(v: &Value) -> String {
    v.to_string()
}

fn read_str(s: &dyn SlotT, i: usize) -> (String, String) {
    match guarded(|| s.read(i)) {
        Ok(v) => {
            if v.get("INCONSISTENT").is_some() || v.get("INVALID_UTF8").is_some() {
                (String::new(), canon(&v))
            } else {
                (canon(&v), String::new())
            }
        }
        Err(m) => (String::new(), format!("PANIC: {m}")),
    }
}

fn heap_of(s: &dyn SlotT) -> (i64, Vec<usize>, bool) {
    match guarded(|| s.heap()) {
        Ok(Some(h)) => (h.iter().map(|p| p.0 as i64).sum(), h.iter().map(|p| p.1).collect(), h.iter().all(|(u, c)| u <= c)),
        _ => (-1, vec![], true),
    }
}

impl Tracked {
    /// re-read earlier items: all while few, then the oldest, the newest and a random sample
    fn stable(&self, rng: &mut StdRng) -> (bool, String) {
        let n = self.first.len();
        let mut ids: Vec<usize> = if n <= 48 { (0..n).collect() } else {
            // (every read re-checks all accessors of the item; very long runs sample more thinly)
            let (edge, rnd) = if n <= 1000 { (8, 24) } else { (2, 5) };
            let mut v: Vec<usize> = (0..edge).collect();
            v.extend(n - edge..n);
            for _ in 0..rnd {
                v.push(rng.gen_range(0..n));
            }
            v
        };
        ids.dedup();
        for k in ids {
            let (now, err) = read_str(&*self.slot, k);
            if !err.is_empty() || now != self.first[k] {
                return (false, format!("id {k}: first {} now {}{}", &self.first[k].chars().take(120).collect::<String>(), now.chars().take(120).collect::<String>(), err));
            }
        }
        (true, String::new())
    }
    fn obs_string(&self) -> String {
        let n = self.slot.n();
        let mut out = String::new();
        for i in 0..n {
            let (r, e) = read_str(&*self.slot, i);
            out.push_str(&self.slot.idx(i).to_string());
            out.push('=');
            out.push_str(&r);
            out.push_str(&e);
            out.push(';');
        }
        out
    }
}

pub struct Driver<'a, W: Write> {
    out: &'a mut W,
    pub run: u64,
    seq: u64,
}

impl<'a, W: Write> Driver<'a, W> {
    fn ev(&mut self, mut v: Value) {
        self.seq += 1;
        v["run"] = json!(self.run);
        v["seq"] = json!(self.seq);
        writeln!(self.out, "{}", v).unwrap();
    }

    fn push(&mut self, slots: &mut [Tracked], s: usize, form: usize, v: &Value, rng: &mut StdRng, log_v: bool) {
        if slots[s].dead {
            return;
        }
        let (ub, _cb, _) = heap_of(&*slots[s].slot);
        let nb = slots[s].slot.n();
        let prev_idx = if nb > 0 { Some(slots[s].slot.idx(nb - 1)) } else { None };
        let res = {
            let sl = &mut slots[s].slot;
            guarded(|| sl.push(form, v))
        };
        match res {
            Err(m) => {
                slots[s].dead = true;
                // a push that panics where a fresh region accepts it is also a C08 matter
                let fresh_panics = match slots[s].twin.as_mut() {
                    None => true,
                    Some(tw) => guarded(|| tw.push(form, v)).is_err(),
                };
                self.ev(json!({"ev": "push", "s": s + 1, "form": form, "item_form": false, "v_s": canon(v), "panic": true, "fresh_same": fresh_panics, "msg": m.chars().take(100).collect::<String>()}));
            }
            Ok(idx) => {
                let t = &mut slots[s];
                let (read_s, read_err) = read_str(&*t.slot, nb);
                let (stable, changed) = t.stable(rng);
                t.vals.push(v.clone());
                t.first.push(read_s.clone());
                let (ua, _ca, pairs_ok) = heap_of(&*t.slot);
                let idx_num = idx.as_i64().unwrap_or(-1);
                let fresh_same = match t.twin.as_mut() {
                    None => true,
                    Some(tw) => match guarded(|| tw.push(form, v)) {
                        // the returned index only: stored bytes may differ legitimately (a cleared ColumnsRegion keeps
                        // its emptied columns, and counts their headers as used)
                        Ok(ti) => ti == idx,
                        Err(_) => false,
                    },
                };
                let mut e = json!({"ev": "push", "s": s + 1, "form": form, "item_form": false, "v_s": canon(v), "panic": false, "n_before": nb, "fresh_same": fresh_same,
                    "idx_num": idx_num, "same_as_prev": prev_idx.map(|p| p == idx).unwrap_or(false),
                    "bad_utf8": read_s.contains("INVALID_UTF8") || changed.contains("INVALID_UTF8"), "read_s": read_s, "read_err": read_err, "stable": stable, "changed": changed,
                    "used_before": ub, "used_after": ua, "pairs_ok": pairs_ok});
                if log_v {
                    e["v"] = v.clone();
                }
                self.ev(e);
            }
        }
    }
}

fn subject_flags(shape: &Value) -> (bool, bool) {
    let k = shape["k"].as_str().unwrap_or("");
    (k == "cip" || k == "columns", k == "collapse")
}

fn contains_f64(shape: &Value) -> bool {
    match shape {
        Value::Object(m) => m.get("t").map(|t| t == "f64").unwrap_or(false) || m.values().any(contains_f64),
        Value::Array(a) => a.iter().any(contains_f64),
        _ => false,
    }
}

/// one random run on subject `name`
fn random_run<W: Write>(d: &mut Driver<W>, name: &str, rng: &mut StdRng, steps: usize) {
    let subj = catalogue::find(name);
    let shape = subj.shape.clone();
    let (dense, collapse) = subject_flags(&shape);
    let nslots = 3;
    let mut slots: Vec<Tracked> = (0..nslots).map(|_| Tracked { slot: (subj.make)(), vals: vec![], first: vec![], dead: false, twin: None }).collect();
    d.seq = 0;
    d.ev(json!({"ev": "reset", "subj": name, "shape": shape, "nslots": nslots, "dense": dense, "collapse": collapse}));
    let nforms = subj.forms.len();
    let caps = subj.caps.clone();
    let json_safe = true;
    let has_f64 = contains_f64(&shape);
    let mut last: Option<Value> = None;
    for _ in 0..steps {
        let s = if rng.gen_bool(0.7) { 0 } else { rng.gen_range(0..nslots) };
        let r = rng.gen_range(0..100);
        if r < 62 {
            // push; consecutive equal values matter to deduplicating regions
            let v = match &last {
                Some(l) if rng.gen_bool(0.35) => l.clone(),
                _ => {
                    let safe = (json_safe && !has_f64) || rng.gen_bool(0.5);
                    gen_value(&shape, rng, safe)
                }
            };
            last = Some(v.clone());
            d.push(&mut slots, s, rng.gen_range(0..nforms), &v, rng, collapse);
        } else if r < 68 {
            if slots[s].dead {
                continue;
            }
            let (_, cb, _) = heap_of(&*slots[s].slot);
            let res = {
                let sl = &mut slots[s].slot;
                guarded(|| sl.clear())
            };
            slots[s].vals.clear();
            slots[s].first.clear();
            slots[s].twin = Some((subj.make)());
            let (ua, ca, _) = heap_of(&*slots[s].slot);
            let uf = heap_of(&**slots[s].twin.as_ref().unwrap()).0;
            d.ev(json!({"ev": "clear", "s": s + 1, "panic": res.is_err(), "caps_before": cb, "caps_after": ca, "used_after": ua, "used_fresh": uf,
                        "n_after": slots[s].slot.n()}));
            if res.is_err() {
                slots[s].dead = true;
            }
        } else if r < 76 && caps["clone"] == json!(true) {
            // clone / clone_from / serde into another slot
            let dst = (s + 1 + rng.gen_range(0..nslots - 1)) % nslots;
            if slots[s].dead {
                continue;
            }
            let kind = ["clone", "clone_from", "serde"][rng.gen_range(0..3)];
            if kind == "serde" && (caps["serde"] != json!(true) || has_f64) {
                continue;
            }
            if kind == "clone_from" && slots[dst].dead {
                continue;
            }
            let copied: Result<Option<Box<dyn SlotT>>, String> = match kind {
                "clone" => guarded(|| slots[s].slot.dup()),
                "serde" => guarded(|| slots[s].slot.serde_copy().and_then(|r| r.ok())),
                _ => {
                    let (a, b) = if dst < s {
                        let (x, y) = slots.split_at_mut(s);
                        (&mut x[dst], &y[0])
                    } else {
                        let (x, y) = slots.split_at_mut(dst);
                        (&mut y[0], &x[s])
                    };
                    guarded(|| {
                        a.slot.dup_from(&*b.slot);
                        None
                    })
                }
            };
            match copied {
                Err(m) => {
                    d.ev(json!({"ev": "copy", "kind": kind, "d": dst + 1, "s": s + 1, "panic": true, "msg": m}));
                    slots[dst].dead = true;
                }
                Ok(c) => {
                    if let Some(c) = c {
                        slots[dst].slot = c;
                    } else if kind != "clone_from" {
                        d.ev(json!({"ev": "copy", "kind": kind, "d": dst + 1, "s": s + 1, "panic": true, "msg": "copy failed"}));
                        slots[dst].dead = true;
                        continue;
                    }
                    slots[dst].vals = slots[s].vals.clone();
                    slots[dst].first = slots[s].first.clone();
                    slots[dst].dead = false;
                    slots[dst].twin = None;
                    let (a, b) = (slots[dst].obs_string(), slots[s].obs_string());
                    d.ev(json!({"ev": "copy", "kind": kind, "d": dst + 1, "s": s + 1, "panic": false, "obs_d": a, "obs_s": b}));
                }
            }
        } else if r < 82 {
            // merge_regions into dst from one or two sources
            let dst = rng.gen_range(0..nslots);
            let srcs: Vec<usize> = (0..nslots).filter(|x| !slots[*x].dead && rng.gen_bool(0.5)).collect();
            let m = {
                let refs: Vec<&dyn SlotT> = srcs.iter().map(|&x| &*slots[x].slot).collect();
                let proto = &slots[0].slot;
                guarded(|| proto.merged(&refs))
            };
            match m {
                Ok(m) => {
                    let n_after = m.n();
                    slots[dst] = Tracked { slot: m, vals: vec![], first: vec![], dead: false, twin: None };
                    d.ev(json!({"ev": "merge", "d": dst + 1, "srcs": srcs.iter().map(|x| x + 1).collect::<Vec<_>>(), "panic": false, "n_after": n_after}));
                }
                Err(msg) => {
                    d.ev(json!({"ev": "merge", "d": dst + 1, "srcs": srcs.iter().map(|x| x + 1).collect::<Vec<_>>(), "panic": true, "msg": msg}));
                    slots[dst].dead = true;
                }
            }
        } else if r < 92 {
            // pre-sizing: reserve_items / reserve_regions must not be observable
            if slots[s].dead {
                continue;
            }
            let use_items = !subj.reserve_forms.is_empty() && rng.gen_bool(0.5);
            let res = if use_items {
                let batch: Vec<Value> = (0..rng.gen_range(0..6)).map(|_| gen_value(&shape, rng, false)).collect();
                let f = rng.gen_range(0..subj.reserve_forms.len());
                let sl = &mut slots[s].slot;
                guarded(|| sl.reserve_items(f, &batch))
            } else if caps["reserve_regions"] == json!(true) && caps["clone"] == json!(true) {
                let picks: Vec<usize> = (0..nslots).filter(|x| !slots[*x].dead && rng.gen_bool(0.6)).collect();
                // (the sources are clones: a clone that panics is a finding about clone, not a reason to stop recording)
                let copies: Vec<Box<dyn SlotT>> = match guarded(|| picks.iter().filter_map(|&x| slots[x].slot.dup()).collect::<Vec<_>>()) {
                    Ok(c) => c,
                    Err(m) => {
                        d.ev(json!({"ev": "copy", "kind": "clone", "d": s + 1, "s": s + 1, "panic": true, "msg": m}));
                        slots[s].dead = true;
                        continue;
                    }
                };
                let refs: Vec<&dyn SlotT> = copies.iter().map(|b| &**b).collect();
                let sl = &mut slots[s].slot;
                guarded(|| sl.reserve_regions(&refs))
            } else {
                continue;
            };
            slots[s].twin = None;
            let (stable, changed) = slots[s].stable(rng);
            let n = slots[s].slot.n();
            d.ev(json!({"ev": "reserve", "kind": if use_items { "items" } else { "regions" }, "s": s + 1, "panic": res.is_err(), "stable": stable, "changed": changed, "n_after": n}));
            if res.is_err() {
                slots[s].dead = true;
            }
        } else if caps["push_item"] == json!(true) {
            // a read item of one region pushed into another
            let src = rng.gen_range(0..nslots);
            if src == s || slots[src].dead || slots[s].dead || slots[src].vals.is_empty() {
                continue;
            }
            let i = rng.gen_range(0..slots[src].vals.len());
            let v = slots[src].vals[i].clone();
            let rep = if rng.gen_bool(0.5) { "region" } else { "owned" };
            let nb = slots[s].slot.n();
            let (ub, _, _) = heap_of(&*slots[s].slot);
            let prev_idx = if nb > 0 { Some(slots[s].slot.idx(nb - 1)) } else { None };
            let res = {
                let (a, b) = if s < src {
                    let (x, y) = slots.split_at_mut(src);
                    (&mut x[s], &y[0])
                } else {
                    let (x, y) = slots.split_at_mut(s);
                    (&mut y[0], &x[src])
                };
                guarded(|| a.slot.push_from(&*b.slot, i, rep))
            };
            match res {
                Err(m) => {
                    slots[s].dead = true;
                    d.ev(json!({"ev": "push", "s": s + 1, "form": format!("item:{rep}"), "item_form": true, "v_s": canon(&v), "panic": true, "fresh_same": true, "msg": m}));
                }
                Ok(None) => {}
                Ok(Some(idx)) => {
                    let t = &mut slots[s];
                    t.twin = None;
                    let (read_s, read_err) = read_str(&*t.slot, nb);
                    let (stable, changed) = t.stable(rng);
                    t.vals.push(v.clone());
                    t.first.push(read_s.clone());
                    let (ua, _, pairs_ok) = heap_of(&*t.slot);
                    let mut e = json!({"ev": "push", "s": s + 1, "form": format!("item:{rep}"), "item_form": true, "v_s": canon(&v), "panic": false, "n_before": nb,
                        "idx_num": idx.as_i64().unwrap_or(-1), "same_as_prev": prev_idx.map(|p| p == idx).unwrap_or(false), "fresh_same": true,
                        "bad_utf8": read_s.contains("INVALID_UTF8") || changed.contains("INVALID_UTF8"), "read_s": read_s, "read_err": read_err, "stable": stable, "changed": changed,
                        "used_before": ub, "used_after": ua, "pairs_ok": pairs_ok});
                    if collapse {
                        e["v"] = v.clone();
                    }
                    d.ev(e);
                    last = Some(v);
                }
            }
        }
    }
}

/// targeted runs that cross what no bounded model reaches: offsets beyond u32::MAX with live
/// earlier indices, index values around u32::MAX / usize::MAX, thousands of pushes, many columns
fn big_runs<W: Write>(d: &mut Driver<W>, rng: &mut StdRng, long: usize) {
    let unit_n = |n: u64| json!({"unit_n": n.to_string()});
    let mut scripted = |d: &mut Driver<W>, name: &str, values: Vec<Value>, rng: &mut StdRng| {
        if !catalogue::subjects().iter().any(|s| s.name == name) {
            return;
        }
        let subj = catalogue::find(name);
        let (dense, collapse) = subject_flags(&subj.shape);
        let mut slots = vec![Tracked { slot: (subj.make)(), vals: vec![], first: vec![], dead: false, twin: None }];
        d.run += 1;
        d.seq = 0;
        d.ev(json!({"ev": "reset", "subj": name, "shape": subj.shape, "nslots": 1, "dense": dense, "collapse": collapse}));
        let nforms = subj.forms.len();
        for v in &values {
            let f = rng.gen_range(0..nforms);
            d.push(&mut slots, 0, f, v, rng, collapse);
        }
    };
    for name in ["cip_owned_unit_list", "cip_owned_unit_opt"] {
        scripted(d, name, vec![json!(["unit", "unit", "unit"]), json!([]), unit_n(1 << 32), json!(["unit"]), unit_n((1 << 33) + 5), json!([]), json!(["unit", "unit"]), unit_n(1 << 20)], rng);
        scripted(d, name, vec![unit_n(u32::MAX as u64), json!(["unit"]), json!(["unit"]), unit_n(4096), json!([])], rng);
    }
    let big = |x: u64| json!(x.to_string());
    for name in ["slice_mirror_usize_opt", "slice_mirror_usize_list"] {
        scripted(d, name, vec![json!([0, 1, 2]), json!([7]), json!([3]), json!([big(u32::MAX as u64), 5]), json!([big(u32::MAX as u64 + 1)]), json!([6, big(u64::MAX)]), json!([]), json!([0])], rng);
        scripted(d, name, vec![json!([0, 3, 6, 6]), json!([1]), json!([6]), json!([0]), json!([big(1 << 63), big(1 << 63)])], rng);
        scripted(d, name, vec![json!([7]), json!([0]), json!([0, 0, 0]), json!([big(u64::MAX), big(u64::MAX - 1)])], rng);
        // the very first index is already beyond u32::MAX; stride continuations after a large spill
        scripted(d, name, vec![json!([big(1 << 32)]), json!([0]), json!([big(1 << 32)]), json!([0, 1, 2]), json!([3])], rng);
        scripted(d, name, vec![json!([0, 5, 10]), json!([big(1 << 32)]), json!([15]), json!([20, 20]), json!([big(u64::MAX)]), json!([1])], rng);
        scripted(d, name, vec![json!([big(u64::MAX), 0, 0, 0]), json!([]), json!([0, 0])], rng);
    }
    // long runs: many reallocations with live early indices
    for name in ["string", "slice_str", "cols_str", "cip_str_opt", "collapse_cip_str", "slice_collapse_cip_str", "cols_collapse_cip_str", "opt_res", "slice_slice_str", "cip_str_list"] {
        d.run += 1;
        random_run_pushes_only(d, name, rng, long);
    }
}

fn random_run_pushes_only<W: Write>(d: &mut Driver<W>, name: &str, rng: &mut StdRng, steps: usize) {
    let subj = catalogue::find(name);
    let shape = subj.shape.clone();
    let (dense, collapse) = subject_flags(&shape);
    let mut slots = vec![Tracked { slot: (subj.make)(), vals: vec![], first: vec![], dead: false, twin: None }];
    d.seq = 0;
    d.ev(json!({"ev": "reset", "subj": name, "shape": shape, "nslots": 1, "dense": dense, "collapse": collapse}));
    let nforms = subj.forms.len();
    let mut last: Option<Value> = None;
    for _ in 0..steps {
        let v = match &last {
            Some(l) if rng.gen_bool(0.3) => l.clone(),
            _ => gen_value(&shape, rng, false),
        };
        last = Some(v.clone());
        d.push(&mut slots, 0, rng.gen_range(0..nforms), &v, rng, collapse);
    }
    // ... and a clear once the allocations are large, followed by the same kind of pushes next to a fresh twin
    if slots[0].dead {
        return;
    }
    let (_, cb, _) = heap_of(&*slots[0].slot);
    let res = {
        let sl = &mut slots[0].slot;
        guarded(|| sl.clear())
    };
    slots[0].vals.clear();
    slots[0].first.clear();
    slots[0].twin = Some((subj.make)());
    let (ua, ca, _) = heap_of(&*slots[0].slot);
    let uf = heap_of(&**slots[0].twin.as_ref().unwrap()).0;
    d.ev(json!({"ev": "clear", "s": 1, "panic": res.is_err(), "caps_before": cb, "caps_after": ca, "used_after": ua, "used_fresh": uf, "n_after": slots[0].slot.n()}));
    if res.is_err() {
        return;
    }
    for _ in 0..20 {
        let v = gen_value(&shape, rng, false);
        d.push(&mut slots, 0, rng.gen_range(0..nforms), &v, rng, collapse);
    }
}

/// FlatStacks whose indices are the values themselves (MirrorRegion<usize>): index values around
/// u32::MAX and usize::MAX reach the stack's own index container, which no bounded model can enumerate
fn stack_big_runs<W: Write>(d: &mut Driver<W>) {
    let big = |x: u64| json!(x.to_string());
    let seqs: Vec<Vec<Value>> = vec![
        vec![big(1 << 32), json!(0), big(1 << 32), json!(0), json!(1)],
        vec![json!(0), json!(5), json!(10), big(1 << 32), json!(15), json!(20), big(u64::MAX), json!(3)],
        vec![json!(0), json!(1), json!(2), json!(2), json!(2)],
        vec![json!(1), json!(2), big(u32::MAX as u64), big(u32::MAX as u64 + 1), json!(7), big(u32::MAX as u64)],
        vec![big(u64::MAX), big(u64::MAX), json!(0), json!(0), big(1 << 63), json!(0)],
        vec![json!(0), big(1 << 63), json!(0), big(1 << 63)],
    ];
    for name in ["fs_mirror_usize_opt", "fs_mirror_usize_list", "fs_mirror_usize_vec"] {
        for seq in &seqs {
            d.run += 1;
            d.seq = 0;
            let mut st = crate::stack::make(name);
            d.ev(json!({"ev": "reset", "subj": name, "shape": {"k": "none"}, "nslots": 1, "dense": false, "collapse": false}));
            for v in seq {
                let r = guarded(|| st.copy(v));
                if let Err(m) = r {
                    d.ev(json!({"ev": "stack_copy", "s": 1, "v_s": canon(v), "panic": true, "msg": m, "len": 0, "is_empty": true, "items_s": [], "iter_s": [], "oob_ok": true}));
                    break;
                }
                let n = st.len();
                let items: Vec<String> = (0..n).map(|i| guarded(|| st.get(i)).map(|x| canon(&x)).unwrap_or_else(|m| format!("PANIC {m}"))).collect();
                let iter: Vec<String> = guarded(|| st.iter_all()).map(|xs| xs.iter().map(canon).collect()).unwrap_or_else(|m| vec![format!("PANIC {m}")]);
                let oob_ok = guarded(|| st.get(n)).is_err() && guarded(|| st.get(n + 1)).is_err();
                let laws = guarded(|| st.iter_laws()).map(|r| r.is_ok()).unwrap_or(false);
                d.ev(json!({"ev": "stack_copy", "s": 1, "v_s": canon(v), "panic": false, "len": n, "is_empty": st.is_empty(), "items_s": items, "iter_s": iter, "oob_ok": oob_ok && laws}));
            }
        }
    }
}

/// `drive --seed N --runs K --steps S --long L --out trace.ndjson [--subjects a,b,c]`
pub fn cmd_drive(seed: u64, runs: usize, steps: usize, long: usize, out: &str, only: Option<Vec<String>>) {
    quiet_panics();
    let f = std::fs::File::create(out).expect("create trace");
    let mut w = std::io::BufWriter::new(f);
    let mut rng = StdRng::seed_from_u64(seed);
    let mut d = Driver { out: &mut w, run: 0, seq: 0 };
    let names: Vec<String> = catalogue::subjects().iter().map(|s| s.name.to_string()).filter(|n| only.as_ref().map(|o| o.contains(n)).unwrap_or(true)).collect();
    for name in &names {
        for _ in 0..runs {
            d.run += 1;
            random_run(&mut d, name, &mut rng, steps);
        }
    }
    if only.is_none() {
        big_runs(&mut d, &mut rng, long);
        stack_big_runs(&mut d);
    }
    let total = d.run;
    w.flush().unwrap();
    eprintln!("drive: {total} runs");
}
